#!/venv/bin/python
"""Confirm behaviour-preserving twins (suite passes) and run all checks on them.
usage: twins.py <Tn> [--file]   (--file copies confirmed twins to /verif/selftest/twins)"""
import os, shutil, subprocess, sys, tempfile, glob
from concurrent.futures import ThreadPoolExecutor
tid = sys.argv[1]
def one(p):
    name = f"{tid}-{os.path.basename(os.path.dirname(p))}"
    d = tempfile.mkdtemp(prefix="tw_")
    try:
        for x in ("prosemirror", "tests"):
            shutil.copytree(f"/repo/{x}", f"{d}/{x}")
        shutil.copy("/repo/pyproject.toml", d)
        ap = subprocess.run(["patch", "-p1", "-s", "-d", d, "-i", p], capture_output=True, text=True)
        if ap.returncode:
            return name, "PATCH-FAIL", ""
        t = subprocess.run("/venv/bin/python -m pytest -q -p no:cacheprovider -n 2 2>&1 | tail -1", shell=True, cwd=d, env=dict(os.environ, PYTHONPATH=d), capture_output=True, text=True).stdout.strip()
        env = dict(os.environ, PMVERIF_REPO=d, PMVERIF_NO_EVIDENCE="1")
        pr = subprocess.run(["/verif/check", "all", "--root", d], capture_output=True, text=True, env=env)
        lines = [l for l in pr.stdout.splitlines() if l.startswith(("VIOLATION", "  FINDING", "ANALYSIS-ERROR"))]
        if "--file" in sys.argv and "442 passed" in t:
            os.makedirs("/verif/selftest/twins", exist_ok=True)
            shutil.copy(p, f"/verif/selftest/twins/{name}.diff")
            n = os.path.join(os.path.dirname(p), "notes.md")
            if os.path.exists(n):
                shutil.copy(n, f"/verif/selftest/twins/{name}.md")
        return name, t, "\n".join("      " + l[:330] for l in lines)
    finally:
        shutil.rmtree(d, ignore_errors=True)
ps = sorted(glob.glob(f"/tmp/twinout/{tid}/r*/patch.diff"))
with ThreadPoolExecutor(8) as ex:
    for name, t, out in ex.map(one, ps):
        print(name, "|", t, "|", "SILENT" if not out else "")
        if out:
            print(out)
