#!/venv/bin/python
"""Regenerate /verif/MANIFEST.json from the rules table (pmverif/props.py)."""
import json, os, sys
V = os.path.dirname(os.path.dirname(os.path.abspath(__file__)))
sys.path.insert(0, V)
from pmverif import props

ids = [json.loads(l)["id"] for l in open(os.path.join(V, "properties.jsonl"))]
NA = getattr(props, "NOT_APPLICABLE", {})
checks = []
for i in ids:
    if i not in props.PROPS:
        continue
    sp = props.PROPS[i]
    checks.append({
        "property_id": i,
        "quick_cmd": f"/verif/check {i} --tier quick",
        "thorough_cmd": f"/verif/check {i} --tier thorough",
        "evidence_file": f"/verif/evidence/{i}.json",
        "replay_cmd_template": f"/verif/check {i} --replay {{path}}",
        "engine": "pmverif",
        "level_claimed": {
            "category": "other",
            "text": "static analysis of /repo's current source (no execution): " + sp["explanation"],
            "design_ref": "DESIGN.md section 4, " + i,
        },
        "level_note": "decides structural necessary conditions only, not the behavioural statement; trusted: CPython ast, mypy type inference (where used), the frozen instance tables in /verif/pmverif/rules (each entry confirmed by reading), the hand-built CFG; assumes no reflection on value types",
        "technique": sp.get("technique", "custom AST/CFG/dataflow checkers (dominance on condition edges, loop-path enumeration, congruence and unit domains, normal-form comparison, sibling agreement)"),
    })
m = {
    "version": 1,
    "setup_cmd": "/venv/bin/python -c \"import ast, mypy.build; print('pmverif setup ok')\"",
    "hooks": {
        "guard": "PROSEMIRROR_PY_VERIF",
        "enable": "no hooks: the checks read /repo's source only and never import it",
        "baseline_off_cmd": "cd /repo && /venv/bin/python -m pytest -ra -q -p no:cacheprovider --timeout=900 --continue-on-collection-errors",
        "source_commits": [],
        "add_only": True,
    },
    "engines": [{"name": "pmverif", "path": "/verif/pmverif", "serves_properties": [c["property_id"] for c in checks], "kind_free_text": "repository-specific static analysis: ast loader, mypy-as-library type map, CFG with condition edges, structured path enumeration, small abstract domains, declarative gate tables"}],
    "checks": checks,
    "notes": "static-analysis family only; see DESIGN.md. exit 0 = all rule instances hold, 1 = VIOLATION, 2 = ANALYSIS-ERROR (checker needs maintenance).",
    "not_applicable": [{"property_id": i, "reason": NA.get(i, "check not built yet (build in progress, see DESIGN.md section 8)")} for i in ids if i not in props.PROPS],
}
json.dump(m, open(os.path.join(V, "MANIFEST.json"), "w"), indent=1)
print("checks:", [c["property_id"] for c in checks], "n/a:", len(m["not_applicable"]))
