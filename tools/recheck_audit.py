#!/venv/bin/python
"""Re-run the current checks on the test-surviving mutants of a mutaudit run.
usage: recheck_audit.py <run.json> <out.json> [--jobs N]"""
import json, os, sys, shutil, subprocess, tempfile
from concurrent.futures import ProcessPoolExecutor
sys.path.insert(0, os.path.dirname(os.path.abspath(__file__)))
from mutaudit import apply_mutant, REPO, V
_scratch = None
def work(m):
    global _scratch
    if _scratch is None:
        _scratch = tempfile.mkdtemp(prefix="recheck_")
        shutil.copytree(os.path.join(REPO, "prosemirror"), os.path.join(_scratch, "prosemirror"))
        shutil.copy(os.path.join(REPO, "pyproject.toml"), _scratch)
    d = _scratch
    orig = apply_mutant(d, m)
    if orig is None:
        m["status2"] = "not-applicable"
        return m
    try:
        env2 = dict(os.environ, PMVERIF_REPO=d, PMVERIF_NO_EVIDENCE="1")
        c = subprocess.run([os.path.join(V, "check"), "all", "--root", d], capture_output=True, text=True, env=env2, timeout=900)
        m["violations"] = sorted({l.split("=")[1].split()[0] for l in c.stdout.splitlines() if l.startswith("VIOLATION property=")})
        m["errors"] = sorted({l.split("=")[1].split(":")[0] for l in c.stdout.splitlines() if l.startswith("ANALYSIS-ERROR property=")})
        m["rules"] = sorted({l.split()[1] for l in c.stdout.splitlines() if l.startswith("  FINDING")})
    finally:
        open(os.path.join(d, m["file"]), "w").write(orig)
    return m
def cleanup(_):
    global _scratch
    if _scratch:
        shutil.rmtree(_scratch, ignore_errors=True); _scratch = None
if __name__ == "__main__":
    r = json.load(open(sys.argv[1]))
    surv = [m for m in r if m.get("status") == "survived"]
    jobs = int(sys.argv[sys.argv.index("--jobs") + 1]) if "--jobs" in sys.argv else 12
    out = []
    with ProcessPoolExecutor(jobs) as ex:
        for i, m in enumerate(ex.map(work, surv, chunksize=2)):
            out.append(m)
            if i % 100 == 0:
                print(i, len(surv), sum(1 for x in out if x.get("violations")), flush=True)
        list(ex.map(cleanup, range(jobs * 2)))
    json.dump(out, open(sys.argv[2], "w"), indent=0)
    det = [x for x in out if x.get("violations")]
    print(f"survivors {len(out)}: detected {len(det)}, analysis-error only {len([x for x in out if not x.get('violations') and x.get('errors')])}, silent {len([x for x in out if not x.get('violations') and not x.get('errors')])}")
