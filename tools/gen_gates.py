#!/venv/bin/python
"""Propose Gate entries for every guarded return / raise / effectful statement of the given
functions (development aid: the output is reviewed by reading before it is pasted into
rules/tables_auto.py).  usage: gen_gates.py <props> <file::qual> ..."""
import ast, os, re, sys
V = os.path.dirname(os.path.dirname(os.path.abspath(__file__)))
sys.path.insert(0, V)
from pmverif.core import Program, src, walk_own
from pmverif.gates import view
from pmverif.rules.rg import SIMPLE, one_line
from pmverif.rules.tables import TABLE

prog = Program()
have = {(g.fn, getattr(g, "target", None)) for g in TABLE}
pairs = [(sys.argv[1], k) for k in sys.argv[2:]]
if sys.argv[1] == "--batch":
    import json

    pairs = [(" ".join(v_), k) for k, v_ in sorted(json.load(open(sys.argv[2])).items())]
for props, key in pairs:
    v = view(prog, key)
    groups = {}
    for n in v.find(lambda n: isinstance(n, SIMPLE)):
        if isinstance(n, (ast.Break, ast.Continue)):
            text = one_line(n)
        elif isinstance(n, ast.Return):
            text = one_line(n.value) if n.value is not None else "None"
        else:
            text = one_line(n)
        from pmverif.core import parent_of
        from pmverif.norm import facts as _facts

        def _under(a, kinds):
            cur = a
            while cur is not None and not isinstance(cur, ast.stmt):
                cur = parent_of(cur)
            return cur if isinstance(cur, kinds) else None

        fs = set()
        for atom, outcome in v.cfg.guards_at(n):
            if getattr(atom, "_synthetic", False):
                continue  # bounds implied by a `for .. in range(..)` header: a loop-form fact, like a while test
            if _under(atom, (ast.Assert,)) is not None:
                continue  # port-added assert: not a guard of the algorithm
            w = _under(atom, (ast.While,))
            if w is not None and any(atom is x for x in ast.walk(w.test)):
                continue  # a loop test (entry or exit condition): `while` <-> `for` rewrites change it
            for f in _facts(atom, outcome):
                if "isinstance(" in f or f == "truthy(True)":
                    continue
                fs.add(f)
        if text.startswith("msg = "):
            continue
        effect = isinstance(n, (ast.Return, ast.Raise, ast.AugAssign, ast.Break, ast.Continue)) or (isinstance(n, ast.Expr) and isinstance(n.value, ast.Call)) or (isinstance(n, ast.Assign) and any(isinstance(t, (ast.Attribute, ast.Subscript)) for t in n.targets))
        if not effect:
            continue
        if isinstance(n, (ast.Break, ast.Continue)) or (isinstance(n, ast.Return) and (n.value is None or isinstance(n.value, ast.Constant))):
            continue  # control-only / constant answers: guard clauses are added and merged freely; the hand table covers the ones that matter
        kind = "ret" if isinstance(n, ast.Return) else "stmt"
        tgt = "^" + re.escape(text[:70]).replace("\\ ", " ") + ("$" if len(text) <= 70 else "")
        groups.setdefault((kind, tgt), []).append(fs)
    for (kind, tgt), fsets in groups.items():
        if (key, tgt) in have:
            continue
        facts = sorted(set.intersection(*fsets))  # several statements of the same text: what all of them need
        if any(f.endswith(" is None") and f[:-8] + " is not None" in facts for f in facts) or not facts:
            continue
        print(f'    AG("{props}", "{key}", "{kind}", {tgt!r}, {["raw:" + f for f in facts]!r}),')
