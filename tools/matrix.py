#!/venv/bin/python
"""Run every seeded patch (/verif/seeded/*/patch.diff) against the registered checks in scratch copies.
usage: matrix.py [--all-props] [name-filter...]   -> table: seed, target property result, other properties that fire"""
import json, os, shutil, subprocess, sys, tempfile
from concurrent.futures import ThreadPoolExecutor
V = "/verif"
sys.path.insert(0, V)
from pmverif import props
allp = sorted(props.PROPS)
flt = [a for a in sys.argv[1:] if not a.startswith("--")]
seeds = sorted(d for d in os.listdir(f"{V}/seeded") if os.path.exists(f"{V}/seeded/{d}/patch.diff") and (not flt or any(f in d for f in flt)))

def one(seed):
    meta = json.load(open(f"{V}/seeded/{seed}/meta.json"))
    d = tempfile.mkdtemp(prefix="mx_")
    try:
        shutil.copytree("/repo/prosemirror", f"{d}/prosemirror")
        shutil.copy("/repo/pyproject.toml", d)
        r = subprocess.run(["patch", "-p1", "-s", "-d", d, "-i", f"{V}/seeded/{seed}/patch.diff"], capture_output=True, text=True)
        if r.returncode:
            return seed, meta, {"patch": "FAILED"}, {}
        env = dict(os.environ, PMVERIF_REPO=d, PMVERIF_NO_EVIDENCE="1")
        res, rules = {}, {}
        pr = subprocess.run([f"{V}/check", "all", "--root", d], capture_output=True, text=True, env=env)
        cur = None
        for l in pr.stdout.splitlines():
            if l.startswith("[C"):
                cur = l[1:l.index("]")]
                res[cur] = 0
                rules[cur] = []
            elif l.startswith("  FINDING") and cur:
                rules[cur].append(l.split()[1])
            elif l.startswith("VIOLATION property="):
                res[l.split("=")[1].split()[0]] = 1
            elif l.startswith("ANALYSIS-ERROR property="):
                pidx = l.split("=")[1].split(":")[0]
                res[pidx] = 2
                rules[pidx] = ["ERR:" + l[:160]]
        for k in rules:
            rules[k] = sorted(set(rules[k]))
        return seed, meta, res, rules
    finally:
        shutil.rmtree(d, ignore_errors=True)

with ThreadPoolExecutor(8) as ex:
    out = list(ex.map(one, seeds))
caught = 0
for seed, meta, res, rules in out:
    targets = meta["breaks"]
    hit_t = [p for p in targets if res.get(p) == 1]
    hit_o = [p for p in allp if res.get(p) == 1 and p not in targets]
    errs = [p for p in allp if res.get(p) == 2]
    status = "CAUGHT" if hit_t else ("caught-elsewhere" if hit_o else "MISSED")
    caught += bool(hit_t)
    det = "; ".join(f"{p}:{','.join(rules[p])}" for p in hit_t + hit_o)
    print(f"{seed:12s} {status:17s} targets={','.join(targets):8s} {det[:150]}" + (f"  ERR:{errs} {rules[errs[0]]}" if errs else ""))
print(f"caught by own property: {caught}/{len(out)}")
if "--write-expect" in sys.argv:
    exp = {"mutants": {}}
    for seed, meta, res, rules in out:
        e = {}
        for p_ in allp:
            if res.get(p_) == 1:
                e[p_] = "caught"
            elif p_ in meta["breaks"]:
                e[p_] = "error" if res.get(p_) == 2 else "missed"
        exp["mutants"][seed] = e
    os.makedirs(f"{V}/selftest", exist_ok=True)
    json.dump(exp, open(f"{V}/selftest/expect.json", "w"), indent=1, sort_keys=True)
    print("wrote selftest/expect.json")
