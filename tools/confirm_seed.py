#!/venv/bin/python
"""Confirm a sub-agent's seeded change in a scratch copy and file it under /verif/seeded/.
usage: confirm_seed.py <Cxx> [a b ...]"""
import json, os, shutil, subprocess, sys, tempfile
pid = sys.argv[1]
variants = sys.argv[2:] or ["a", "b"]
for v in variants:
    srcdir = next((d for d in (f"/tmp/seedout/{pid}/{v}", f"/tmp/seedout2/{pid}/{v}", f"/tmp/seedout3/{pid}/{v}", f"/tmp/seedout4/{pid}/{v}", f"/tmp/seedout5/{pid}/{v}", f"/tmp/seedout6/{pid}/{v}", f"/tmp/seedout7/{pid}/{v}") if os.path.exists(d + "/patch.diff")), f"/tmp/seedout/{pid}/{v}")
    if not os.path.exists(srcdir + "/patch.diff"):
        print(pid, v, "missing"); continue
    d = tempfile.mkdtemp(prefix="seed_")
    try:
        for x in ("prosemirror", "tests"):
            shutil.copytree(f"/repo/{x}", f"{d}/{x}")
        shutil.copy("/repo/pyproject.toml", d)
        env = dict(os.environ, PYTHONPATH=d)
        run = lambda cmd, **k: subprocess.run(cmd, shell=True, cwd=d, env=env, capture_output=True, text=True, **k)
        r0 = run(f"timeout 120 /venv/bin/python {srcdir}/demo.py")
        ap = run(f"patch -p1 -s -i {srcdir}/patch.diff")
        t = run("/venv/bin/python -m pytest -q -p no:cacheprovider -n 8 2>&1 | tail -1")
        r1 = run(f"timeout 120 /venv/bin/python {srcdir}/demo.py")
        my = run("/venv/bin/mypy prosemirror 2>&1 | tail -1")
        ok = r0.returncode == 0 and ap.returncode == 0 and "442 passed" in t.stdout and r1.returncode != 0
        print(pid, v, "CONFIRMED" if ok else "REJECTED", "| demo clean rc", r0.returncode, "| patch", ap.returncode, "|", t.stdout.strip(), "| demo patched rc", r1.returncode, "|", my.stdout.strip())
        if ok:
            out = f"/verif/seeded/{pid}-{v}"
            os.makedirs(out, exist_ok=True)
            for f in ("patch.diff", "demo.py", "notes.md"):
                if os.path.exists(f"{srcdir}/{f}"):
                    shutil.copy(f"{srcdir}/{f}", out)
            notes = open(f"{srcdir}/notes.md").read() if os.path.exists(f"{srcdir}/notes.md") else ""
            meta = {
                "id": f"{pid}-{v}", "breaks": [pid], "origin": "independent sub-agent given only the property text and a scratch worktree",
                "needs": notes.strip()[:1500],
                "ran": {"demo_on_unchanged_tree_rc": r0.returncode, "suite_with_change": t.stdout.strip(), "demo_with_change_rc": r1.returncode, "demo_with_change_tail": (r1.stdout + r1.stderr)[-400:], "mypy_with_change": my.stdout.strip()},
                "base_commit": subprocess.run("git -C /repo rev-parse --short HEAD", shell=True, capture_output=True, text=True).stdout.strip(),
            }
            json.dump(meta, open(out + "/meta.json", "w"), indent=1)
    finally:
        shutil.rmtree(d, ignore_errors=True)
