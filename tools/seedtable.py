#!/venv/bin/python
"""Print the markdown table 'which checks catch which seeded changes' from selftest/expect.json and seeded/*/meta.json."""
import json, os
V = os.path.dirname(os.path.dirname(os.path.abspath(__file__)))
exp = json.load(open(f"{V}/selftest/expect.json"))["mutants"]
print("| seeded change | breaks | what it is (first line of its notes) | caught by (exit 1) | own property |")
print("|---|---|---|---|---|")
for name in sorted(exp):
    meta = json.load(open(f"{V}/seeded/{name}/meta.json"))
    note = (meta.get("fix_subject") or meta.get("needs", "")).strip().splitlines()
    note = next((l.strip(" -*#") for l in note if l.strip(" -*#")), "")[:110].replace("|", "/")
    caught = [p for p, v in sorted(exp[name].items()) if v == "caught"]
    own = [f"{p}:{exp[name].get(p, 'missed')}" for p in meta["breaks"]]
    print(f"| {name} | {','.join(meta['breaks'])} | {note} | {', '.join(caught) or '-'} | {', '.join(own)} |")
