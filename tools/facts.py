#!/venv/bin/python
"""Dump guard facts per statement of a function: facts.py <file::qual> [--root DIR]"""
import ast, os, sys
sys.path.insert(0, os.path.dirname(os.path.dirname(os.path.abspath(__file__))))
if "--root" in sys.argv:
    os.environ["PMVERIF_REPO"] = sys.argv[sys.argv.index("--root") + 1]
from pmverif.core import Program, src, walk_own
from pmverif.gates import view
prog = Program()
for key in [a for a in sys.argv[1:] if "::" in a]:
    v = view(prog, key)
    print("==", key)
    for n in v.find(lambda n: isinstance(n, (ast.Assign, ast.AugAssign, ast.AnnAssign, ast.Return, ast.Raise, ast.Expr, ast.Break, ast.Continue))):
        g = sorted(v.guards(n, resolve=False))
        print(f"{n.lineno:4d} {' '.join(src(n).split())[:90]}")
        print("       ", g)
