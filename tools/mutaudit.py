#!/venv/bin/python
"""Mutation audit (development aid, not a registered check): generate small
AST mutants of the package, keep those the test suite does NOT notice, and
record what the static checks say about each survivor.

usage: mutaudit.py <outfile.json> [--files f1.py,f2.py] [--max-per-func N] [--jobs N]
Scratch copies live under mktemp dirs and are removed.
"""
from __future__ import annotations

import ast
import json
import os
import random
import shutil
import subprocess
import sys
import tempfile
from concurrent.futures import ProcessPoolExecutor

REPO = "/repo"
V = "/verif"


def mutants_of(path: str, rel: str, max_per_func: int) -> list[dict]:
    text = open(path).read()
    tree = ast.parse(text)
    lines = text.splitlines(keepends=True)
    out: list[dict] = []

    def seg(n: ast.AST) -> str:
        return ast.get_source_segment(text, n) or ""

    def add(fn: str, node: ast.AST, new_src: str, desc: str) -> None:
        old = seg(node)
        if not old or old == new_src:
            return
        out.append({"file": rel, "func": fn, "line": node.lineno, "col": node.col_offset, "end_line": node.end_lineno, "end_col": node.end_col_offset, "old": old, "new": new_src, "desc": desc})

    SWAP = {ast.Lt: "<=", ast.LtE: "<", ast.Gt: ">=", ast.GtE: ">", ast.Eq: "!=", ast.NotEq: "==", ast.Is: "is not", ast.IsNot: "is", ast.In: "not in", ast.NotIn: "in"}

    def visit_func(fn: ast.AST, qual: str) -> None:
        cands: list[tuple] = []
        for n in ast.walk(fn):
            if n is not fn and isinstance(n, (ast.FunctionDef, ast.AsyncFunctionDef, ast.ClassDef)):
                continue
            if isinstance(n, ast.Compare) and len(n.ops) == 1:
                l, r = seg(n.left), seg(n.comparators[0])
                if l and r:
                    cands.append((n, f"{l} {SWAP[type(n.ops[0])]} {r}", f"compare {type(n.ops[0]).__name__} swapped"))
            elif isinstance(n, ast.BoolOp) and len(n.values) == 2:
                a, b = seg(n.values[0]), seg(n.values[1])
                if a and b:
                    op = "or" if isinstance(n.op, ast.And) else "and"
                    cands.append((n, f"({a}) {op} ({b})", f"and/or swapped"))
                    cands.append((n, a, "second operand dropped"))
                    cands.append((n, b, "first operand dropped"))
            elif isinstance(n, ast.UnaryOp) and isinstance(n.op, ast.Not):
                o = seg(n.operand)
                if o:
                    cands.append((n, f"({o})", "not removed"))
            elif isinstance(n, ast.BinOp) and isinstance(n.op, (ast.Add, ast.Sub)):
                a, b = seg(n.left), seg(n.right)
                if a and b and not (isinstance(n.left, ast.Constant) and isinstance(n.left.value, str)):
                    cands.append((n, f"{a} {'-' if isinstance(n.op, ast.Add) else '+'} {b}", "+/- swapped"))
            elif isinstance(n, ast.Constant) and isinstance(n.value, int) and not isinstance(n.value, bool) and -2 <= n.value <= 3:
                cands.append((n, str(n.value + 1), "const +1"))
                if n.value != 0:
                    cands.append((n, str(n.value - 1), "const -1"))
            elif isinstance(n, ast.Constant) and isinstance(n.value, bool):
                cands.append((n, str(not n.value), "bool flipped"))
            elif isinstance(n, (ast.AugAssign,)) or (isinstance(n, ast.Expr) and isinstance(n.value, ast.Call)):
                cands.append((n, "pass", "statement deleted"))
            elif isinstance(n, ast.If):
                t = seg(n.test)
                if t:
                    cands.append((n.test, "True", "if forced true"))
                    cands.append((n.test, "False", "if forced false"))
            elif isinstance(n, ast.Call) and len(n.args) >= 2 and all(isinstance(a, (ast.Name, ast.Attribute)) for a in n.args[:2]):
                a, b = seg(n.args[0]), seg(n.args[1])
                if a and b and a != b:
                    cands.append((n.args[0], b, f"first arg replaced by second ({b})"))
            elif isinstance(n, ast.Attribute) and n.attr in ("from_", "to", "open_start", "open_end", "gap_from", "gap_to", "first_child", "last_child", "node_before", "node_after", "start", "end"):
                pair = {"from_": "to", "to": "from_", "open_start": "open_end", "open_end": "open_start", "gap_from": "gap_to", "gap_to": "gap_from", "first_child": "last_child", "last_child": "first_child", "node_before": "node_after", "node_after": "node_before", "start": "end", "end": "start"}[n.attr]
                base = seg(n.value)
                if base and isinstance(n.ctx, ast.Load):
                    cands.append((n, f"{base}.{pair}", f".{n.attr} -> .{pair}"))
        rnd = random.Random(hash((rel, qual)) & 0xFFFF)
        rnd.shuffle(cands)
        for node, new, desc in cands[:max_per_func]:
            add(qual, node, new, desc)

    def walk(node: ast.AST, prefix: str) -> None:
        for ch in ast.iter_child_nodes(node):
            if isinstance(ch, (ast.FunctionDef, ast.AsyncFunctionDef)):
                visit_func(ch, prefix + ch.name)
                walk(ch, prefix + ch.name + ".")
            elif isinstance(ch, ast.ClassDef):
                walk(ch, prefix + ch.name + ".")
            elif isinstance(ch, (ast.If, ast.Try, ast.With, ast.For, ast.While)):
                walk(ch, prefix)

    walk(tree, "")
    return out


def apply_mutant(root: str, m: dict) -> str | None:
    path = os.path.join(root, m["file"])
    text = open(path).read()
    lines = text.splitlines(keepends=True)
    if m["line"] != m["end_line"]:
        # multi-line node: replace by offsets
        start = sum(len(l) for l in lines[: m["line"] - 1]) + len(lines[m["line"] - 1].encode()[: m["col"]].decode())
        end = sum(len(l) for l in lines[: m["end_line"] - 1]) + len(lines[m["end_line"] - 1].encode()[: m["end_col"]].decode())
    else:
        base = sum(len(l) for l in lines[: m["line"] - 1])
        bl = lines[m["line"] - 1].encode()
        start = base + len(bl[: m["col"]].decode())
        end = base + len(bl[: m["end_col"]].decode())
    if text[start:end] != m["old"]:
        return None
    new = text[:start] + m["new"] + text[end:]
    try:
        ast.parse(new)
    except SyntaxError:
        return None
    open(path, "w").write(new)
    return text


_scratch = None


def work(m: dict) -> dict:
    global _scratch
    if _scratch is None:
        _scratch = tempfile.mkdtemp(prefix="mutaudit_")
        for x in ("prosemirror", "tests"):
            shutil.copytree(os.path.join(REPO, x), os.path.join(_scratch, x))
        shutil.copy(os.path.join(REPO, "pyproject.toml"), _scratch)
    d = _scratch
    orig = apply_mutant(d, m)
    if orig is None:
        m["status"] = "not-applicable"
        return m
    try:
        env = dict(os.environ, PYTHONPATH=d, PYTHONDONTWRITEBYTECODE="1")
        try:
            t = subprocess.run(["/venv/bin/python", "-m", "pytest", "-q", "-x", "-p", "no:cacheprovider", "--timeout=60"], cwd=d, env=env, capture_output=True, text=True, timeout=300)
            survived = t.returncode == 0
        except subprocess.TimeoutExpired:
            survived = False
        m["status"] = "survived" if survived else "killed-by-tests"
        if survived:
            env2 = dict(os.environ, PMVERIF_REPO=d, PMVERIF_NO_EVIDENCE="1")
            c = subprocess.run([os.path.join(V, "check"), "all", "--root", d], capture_output=True, text=True, env=env2, timeout=600)
            viol = sorted({l.split("=")[1].split()[0] for l in c.stdout.splitlines() if l.startswith("VIOLATION property=")})
            errs = sorted({l.split("=")[1].split(":")[0] for l in c.stdout.splitlines() if l.startswith("ANALYSIS-ERROR property=")})
            rules = sorted({l.split()[1] for l in c.stdout.splitlines() if l.startswith("  FINDING")})
            m["violations"] = viol
            m["errors"] = errs
            m["rules"] = rules
    finally:
        open(os.path.join(d, m["file"]), "w").write(orig)
    return m


def cleanup(_: int) -> str | None:
    global _scratch
    if _scratch:
        shutil.rmtree(_scratch, ignore_errors=True)
        s, _scratch = _scratch, None
        return s
    return None


if __name__ == "__main__":
    out = sys.argv[1]
    files = None
    mpf = 6
    jobs = 14
    a = sys.argv[2:]
    if "--files" in a:
        files = a[a.index("--files") + 1].split(",")
    if "--max-per-func" in a:
        mpf = int(a[a.index("--max-per-func") + 1])
    if "--jobs" in a:
        jobs = int(a[a.index("--jobs") + 1])
    allm: list[dict] = []
    for dp, _d, fs in os.walk(os.path.join(REPO, "prosemirror")):
        for f in sorted(fs):
            rel = os.path.relpath(os.path.join(dp, f), REPO)
            if not f.endswith(".py") or "test_builder" in rel or (files and not any(rel.endswith(x) for x in files)):
                continue
            allm += mutants_of(os.path.join(dp, f), rel, mpf)
    print("mutants:", len(allm), flush=True)
    res = []
    with ProcessPoolExecutor(jobs) as ex:
        for i, m in enumerate(ex.map(work, allm, chunksize=4)):
            res.append(m)
            if i % 100 == 0:
                surv = [x for x in res if x.get("status") == "survived"]
                det = [x for x in surv if x.get("violations")]
                print(f"{i}/{len(allm)} survived={len(surv)} detected={len(det)}", flush=True)
                json.dump(res, open(out, "w"))
        list(ex.map(cleanup, range(jobs * 2)))
    json.dump(res, open(out, "w"), indent=0)
    surv = [x for x in res if x.get("status") == "survived"]
    det = [x for x in surv if x.get("violations")]
    print(f"done: {len(res)} mutants, {len(surv)} survived the test suite, {len(det)} of those detected by a check (exit 1), {len([x for x in surv if not x.get('violations') and x.get('errors')])} analysis-error only")
