#!/venv/bin/python
import os, subprocess
V = os.path.dirname(os.path.dirname(os.path.abspath(__file__)))
tab = subprocess.run([f"{V}/tools/seedtable.py"], capture_output=True, text=True).stdout
s = open(f"{V}/DESIGN.md").read()
a, b = s.index("<!-- SEEDTABLE:BEGIN -->"), s.index("<!-- SEEDTABLE:END -->")
s = s[:a] + "<!-- SEEDTABLE:BEGIN -->\n" + tab + s[b:]
open(f"{V}/DESIGN.md", "w").write(s)
print("table rows:", tab.count("\n") - 2)
