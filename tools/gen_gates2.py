#!/venv/bin/python
"""Second extraction pass (development aid; output is reviewed before it is pasted into
rules/tables_auto.py): guards of constant answers (`return False` / `return None` / `return True`)
and of guarded local defaults (`if x is None: x = ...`), which gen_gates.py leaves out.
Several statements of the same text get the disjunction of their guard sets (as CNF) and
`max` = the reviewed count, so a refactor that creates an additional constant return makes the
entry unrecognised (exit 2) instead of judged.
usage: gen_gates2.py --batch tools/fn2props.json"""
import ast, itertools, json, os, re, sys
V = os.path.dirname(os.path.dirname(os.path.abspath(__file__)))
sys.path.insert(0, V)
from pmverif.core import Program, parent_of
from pmverif.gates import view
from pmverif.norm import facts as _facts
from pmverif.rules.rg import SIMPLE, one_line
from pmverif.rules.tables import TABLE

prog = Program()
have = {(g.fn, getattr(g, "target", None)) for g in TABLE}
pairs = [(" ".join(v_), k) for k, v_ in sorted(json.load(open(sys.argv[2])).items())]


def _under(a, kinds):
    cur = a
    while cur is not None and not isinstance(cur, ast.stmt):
        cur = parent_of(cur)
    return cur if isinstance(cur, kinds) else None


def _neg(f):
    import re as _re
    if f.startswith("truthy("):
        return "falsy(" + f[7:]
    if f.startswith("falsy("):
        return "truthy(" + f[6:]
    if f.startswith("nonempty("):
        return "empty(" + f[9:]
    if f.endswith(" is not None"):
        return f[:-12] + " is None"
    if f.endswith(" is None"):
        return f[:-8] + " is not None"
    for a, b in ((" == ", " != "), (" != ", " == "), (" not in ", " in "), (" in ", " not in ")):
        if a in f:
            return f.replace(a, b, 1)
    m = _re.fullmatch(r"(.+) < (.+)", f)
    if m:
        return f"{m.group(2)} <= {m.group(1)}"
    m = _re.fullmatch(r"(.+) <= (.+)", f)
    if m:
        return f"{m.group(2)} < {m.group(1)}"
    return "\0"


for props, key in pairs:
    try:
        v = view(prog, key)
    except Exception as e:
        print("#", key, e)
        continue
    groups = {}
    excluded = set()
    fnode = v.fn.node
    params = {a.arg for a in fnode.args.args + fnode.args.kwonlyargs + fnode.args.posonlyargs}
    first_assign = {}
    for n in v.find(lambda n: isinstance(n, (ast.Assign, ast.AnnAssign, ast.AugAssign, ast.For, ast.NamedExpr))):
        tg = n.targets[0] if isinstance(n, ast.Assign) else n.target
        for nm in [x for x in ast.walk(tg) if isinstance(x, ast.Name)]:
            first_assign.setdefault(nm.id, (n.lineno, n.col_offset))
    for n in v.find(lambda n: isinstance(n, SIMPLE)):
        if isinstance(n, ast.Return) and (n.value is None or isinstance(n.value, ast.Constant)):
            kind, text = "ret", (one_line(n.value) if n.value is not None else "None")
        elif isinstance(n, ast.Assign) and len(n.targets) == 1 and isinstance(n.targets[0], ast.Name):
            kind, text = "stmt", one_line(n)
            nm = n.targets[0].id
            # only overrides: a parameter default, or a later re-assignment of a local (a pure first
            # computation may be hoisted out of its guard without changing behaviour)
            if text.startswith("msg = ") or not (nm in params or first_assign.get(nm, (n.lineno, n.col_offset)) < (n.lineno, n.col_offset)):
                excluded.add(("stmt", "^" + re.escape(text[:70]).replace("\\ ", " ") + ("$" if len(text) <= 70 else "")))
                continue
        else:
            continue
        fs = set()
        for atom, outcome in v.cfg.guards_at(n):
            if getattr(atom, "_synthetic", False):
                continue  # bounds implied by a `for .. in range(..)` header: a loop-form fact, like a while test
            if _under(atom, (ast.Assert,)) is not None:
                continue
            w = _under(atom, (ast.While,))
            if w is not None and any(atom is x for x in ast.walk(w.test)):
                continue
            for f in _facts(atom, outcome):
                if "isinstance(" in f or f == "truthy(True)":
                    continue
                fs.add(f)
        tgt = "^" + re.escape(text[:70]).replace("\\ ", " ") + ("$" if len(text) <= 70 else "")
        groups.setdefault((kind, tgt), []).append(frozenset(fs))
    for (kind, tgt), fsets in groups.items():
        if (key, tgt) in have or (kind, tgt) in excluded:
            continue
        if any(not s for s in fsets):
            continue  # one of them is unguarded: nothing to require
        uniq = sorted(set(fsets), key=sorted)
        if len(uniq) > 3:
            continue
        common = set.intersection(*map(set, uniq))
        needs = [f"raw:{f}" for f in sorted(common)]
        rest = [sorted(s - common) for s in uniq]
        if len(uniq) > 1 and all(rest):
            clauses = set()
            for combo in itertools.product(*rest):
                clauses.add(tuple(sorted(set(combo))))
            if len(clauses) > 9:
                clauses = set()
            clauses = {c for c in clauses if not any(_neg(f) in c for f in c)}  # drop tautologies
            for c in sorted(clauses):
                needs.append([f"raw:{f}" for f in c] if len(c) > 1 else f"raw:{c[0]}")
        if not needs:
            continue
        flat = [x for nd in needs for x in ([nd] if isinstance(nd, str) else nd)]
        if any(f.endswith(" is None") and f[:-8] + " is not None" in flat for f in flat):
            pass
        print(f'    AG2("{props}", "{key}", "{kind}", {tgt!r}, {needs!r}, {len(fsets)}),')
