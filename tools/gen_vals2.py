#!/venv/bin/python
"""Propose Val entries (documented-formula instances) for the value-carrying statements of the
given functions: non-constant returns, effect statements and arithmetic assignments.  Development
aid: the output is reviewed by reading before it is pasted into rules/tables_auto.py.
usage: gen_vals.py --batch tools/fn2props.json"""
import ast, json, os, re, sys
V = os.path.dirname(os.path.dirname(os.path.abspath(__file__)))
sys.path.insert(0, V)
from pmverif.core import Program
from pmverif.gates import view
from pmverif.rules.rg import SIMPLE, one_line, Val, Form
from pmverif.rules.tables import TABLE as _T
from pmverif.rules.tables_auto import AUTOV
TABLE = _T + AUTOV

prog = Program()
have_fn_targets = {}
for g in TABLE:
    if isinstance(g, (Val, Form)):
        have_fn_targets.setdefault(g.fn, []).append((g.kind, re.compile(g.target)))
pairs = [(" ".join(v_), k) for k, v_ in sorted(json.load(open(sys.argv[2])).items())]
SWAPPY = {"from_", "to", "open_start", "open_end", "gap_from", "gap_to", "first_child", "last_child", "node_before", "node_after", "start", "end", "pos", "depth", "insert"}


def counts_of(v):
    c = {}
    from pmverif.norm import _assignments
    from pmverif.core import walk_own
    for n in walk_own(v.fn.node):
        for name, val in _assignments(n):
            c[name] = c.get(name, 0) + 1
    return c


def interesting(e: ast.expr) -> bool:
    if isinstance(e, (ast.Name, ast.Constant)):
        return False
    if isinstance(e, (ast.List, ast.Dict, ast.Tuple, ast.Set)) and not ast.dump(e).count("Name("):
        return False
    if isinstance(e, (ast.BoolOp, ast.Compare)) or (isinstance(e, ast.UnaryOp) and isinstance(e.op, ast.Not)):
        return False  # conditions are the gate tables' business
    if isinstance(e, (ast.ListComp, ast.GeneratorExp, ast.DictComp, ast.SetComp, ast.Lambda, ast.JoinedStr)):
        return False
    if any(isinstance(x, ast.JoinedStr) or (isinstance(x, ast.Attribute) and x.attr in ("err", "wrap_cache")) for x in ast.walk(e)):
        return False  # diagnostics and caches carry no position arithmetic
    for x in ast.walk(e):
        if isinstance(x, ast.BinOp) and isinstance(x.op, (ast.Add, ast.Sub)):
            return True
        if isinstance(x, ast.Constant) and isinstance(x.value, int) and not isinstance(x.value, bool):
            return True
        if isinstance(x, ast.Attribute) and x.attr in SWAPPY:
            return True
        if isinstance(x, ast.Call) and len(x.args) + len(x.keywords) >= 1:
            return True
    return False


def head(text: str) -> str:
    m = re.match(r"[\w\.\[\]'\"]+\(", text)
    return m.group(0) if m else text[:16]


for props, key in pairs:
    try:
        v = view(prog, key)
    except Exception as e:
        print("#", key, e)
        continue
    stmts = list(v.find(lambda n: isinstance(n, SIMPLE)))
    cands = []  # (kind, probe text, value expr, stmt)
    for n in stmts:
        if isinstance(n, ast.Return) and n.value is not None and interesting(n.value):
            cands.append(("ret", one_line(n.value), n.value, n))
        elif isinstance(n, ast.Assign) and len(n.targets) == 1 and interesting(n.value) and not one_line(n).startswith("msg = "):
            cands.append(("stmt", one_line(n), n.value, n))
        elif isinstance(n, ast.AugAssign) and (interesting(n.value) or isinstance(n.value, (ast.Constant, ast.Name, ast.Attribute))):
            cands.append(("stmt", one_line(n), n.value, n))
        elif isinstance(n, ast.Expr) and isinstance(n.value, ast.Call) and interesting(n.value):
            cands.append(("stmt", one_line(n), n.value, n))

    def probes(kind):
        out = []
        for n in stmts:
            if kind == "ret" and isinstance(n, ast.Return):
                out.append(one_line(n.value) if n.value is not None else "None")
            elif kind == "stmt" and not isinstance(n, ast.Return):
                out.append(one_line(n))
        return out

    for kind, text, val, n in cands:
        if isinstance(n, ast.Return):
            hd = head(text)
            options = [".", "^" + re.escape(hd).replace("\\ ", " ")]
        elif isinstance(n, ast.Assign):
            lhs = one_line(n.targets[0])
            options = ["^" + re.escape(lhs).replace("\\ ", " ") + " = ", "^" + re.escape(lhs + " = " + head(one_line(n.value))).replace("\\ ", " ")]
        elif isinstance(n, ast.AugAssign):
            lhs = one_line(n.target)
            opx = text[len(lhs):].split("=")[0].strip()
            options = ["^" + re.escape(lhs + " " + opx + "= ").replace("\\ ", " ")]
        else:
            options = ["^" + re.escape(head(text)).replace("\\ ", " ")]
        tgt = None
        for o in options:
            rx = re.compile(o)
            if sum(1 for p in probes(kind) if rx.search(p)) == 1:
                tgt = o
                break
        if tgt is None:
            continue
        if any(k == kind and rx_.search(text) for k, rx_ in have_fn_targets.get(key, [])):
            continue
        # a value that reads a local with several assignments means different things at different
        # points of the function: statement merging / splitting changes its text, not its meaning
        multi = {nm for nm, c in counts_of(v).items() if c >= 2}
        if any(isinstance(x, ast.Name) and x.id in multi for x in ast.walk(val)):
            continue
        print(f'    VA2("{props}", "{key}", "{kind}", {tgt!r}, {one_line(val)!r}),')
