#!/venv/bin/python
"""Apply a patch to a scratch copy of /repo's package and run checks on it.
usage: trypatch.py <patch.diff> <ID> [<ID>...] [--quiet]   (scratch dir removed afterwards)"""
import os, shutil, subprocess, sys, tempfile

def run(patch, ids, quiet=False):
    d = tempfile.mkdtemp(prefix="pmv_")
    try:
        shutil.copytree("/repo/prosemirror", os.path.join(d, "prosemirror"))
        shutil.copy("/repo/pyproject.toml", d)
        r = subprocess.run(["patch", "-p1", "-s", "-d", d, "-i", os.path.abspath(patch)], capture_output=True, text=True)
        if r.returncode != 0:
            print("PATCH FAILED", r.stdout, r.stderr)
            return {}
        out = {}
        for i in ids:
            env = dict(os.environ, PMVERIF_REPO=d, PMVERIF_NO_EVIDENCE="1")
            p = subprocess.run(["/verif/check", i, "--root", d], capture_output=True, text=True, env=env)
            out[i] = p.returncode
            if not quiet:
                lines = [l for l in p.stdout.splitlines() if l.startswith(("VIOLATION", "  FINDING", "ANALYSIS", "KNOWN")) ]
                print(f"--- {i}: rc={p.returncode}")
                for l in lines[:12]:
                    print("   ", l[:260])
                if p.returncode == 2:
                    print(p.stdout[-800:], p.stderr[-800:])
        return out
    finally:
        shutil.rmtree(d, ignore_errors=True)

if __name__ == "__main__":
    a = [x for x in sys.argv[1:] if x != "--quiet"]
    res = run(a[0], a[1:], "--quiet" in sys.argv)
    print(res)
