#!/venv/bin/python
"""Write selftest/reviewed_shape.json: for every function of the reviewed tree the identifiers it
mentions.  Used only to make comparisons *more lenient* (an identifier the reviewed function did not
contain marks an expression as renamed / restructured), never to flag anything."""
import ast, json, os, sys
V = os.path.dirname(os.path.dirname(os.path.abspath(__file__)))
sys.path.insert(0, V)
from pmverif.core import Program
from pmverif.norm import Resolver, assigned_names, shape_of
prog = Program()
out = {}
def _sig(node):
    a = node.args
    pos = [*a.posonlyargs, *a.args]
    out = {p.arg: " ".join(ast.unparse(d).split()) for p, d in zip(pos[len(pos) - len(a.defaults):], a.defaults)}
    out.update({p.arg: " ".join(ast.unparse(d).split()) for p, d in zip(a.kwonlyargs, a.kw_defaults) if d is not None})
    return out
def _uses(key):
    from pmverif.gates import def_uses, view
    try:
        return def_uses(view(prog, key))
    except Exception as e:
        return None
def _ctx(key):
    from pmverif.gates import stmt_contexts, view
    try:
        return stmt_contexts(view(prog, key))
    except Exception as e:  # no CFG for this function: the rule has no reference and skips it
        print("no ctx", key, e)
        return None
for fn in prog.all_funcs():
    from pmverif.core import walk_own
    out[fn.key] = {
        "names": sorted({n.id for n in ast.walk(fn.node) if isinstance(n, ast.Name)} | {a.arg for a in ast.walk(fn.node) if isinstance(a, ast.arg)}),
        "stmts": sorted(" ".join(ast.unparse(st).split()) for st in walk_own(fn.node) if isinstance(st, (ast.Assign, ast.AnnAssign, ast.AugAssign, ast.Expr, ast.Return, ast.Raise, ast.Break, ast.Continue, ast.Delete, ast.Assert)) and not (isinstance(st, ast.Expr) and isinstance(st.value, ast.Constant))),
        "tests": sorted(" ".join(ast.unparse(st.test).split()) for st in walk_own(fn.node) if isinstance(st, (ast.If, ast.While))) + sorted("for " + " ".join(ast.unparse(st.target).split()) + " in " + " ".join(ast.unparse(st.iter).split()) for st in walk_own(fn.node) if isinstance(st, ast.For)),
        "shape": shape_of(fn.node),
        "locals": sorted((assigned_names([fn.node]) | set(fn.params())) - {fn.name}),
        "defs": {k: " ".join(ast.unparse(e).split()) for k, e in sorted(Resolver(fn.node).defs.items())},
        "sig": _sig(fn.node),
        "ctx": _ctx(fn.key),
        "uses": _uses(fn.key),
        "returns": sorted(" ".join(ast.unparse(r.value).split()) if r.value is not None else "None" for r in walk_own(fn.node) if isinstance(r, ast.Return)),
    }
# module-level constants (UPPER_CASE names and compiled patterns) of every module
consts = {}
for rel, m in prog.modules.items():
    d = {}
    for st in m.tree.body:
        tgt = None
        if isinstance(st, ast.Assign) and len(st.targets) == 1 and isinstance(st.targets[0], ast.Name):
            tgt, val = st.targets[0].id, st.value
        elif isinstance(st, ast.AnnAssign) and isinstance(st.target, ast.Name) and st.value is not None:
            tgt, val = st.target.id, st.value
        def _constlike(x):
            if isinstance(x, ast.Constant):
                return isinstance(x.value, (int, str, float, bytes)) and not isinstance(x.value, bool)
            if isinstance(x, ast.BinOp):
                return _constlike(x.left) and _constlike(x.right)
            if isinstance(x, ast.UnaryOp):
                return _constlike(x.operand)
            if isinstance(x, ast.Call) and isinstance(x.func, ast.Attribute) and x.func.attr == "compile" and isinstance(x.func.value, ast.Name) and x.func.value.id == "re":
                return True
            if isinstance(x, ast.Call) and isinstance(x.func, ast.Name) and x.func.id == "frozenset":
                return True
            return False
        if tgt and not tgt.startswith("__") and _constlike(val):
            d[tgt] = " ".join(ast.unparse(val).split())
    if d:
        consts[rel] = d
out["<module constants>"] = consts
json.dump(out, open(os.path.join(V, "selftest", "reviewed_shape.json"), "w"), indent=0, sort_keys=True)
print(len(out), "functions")
