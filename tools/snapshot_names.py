#!/venv/bin/python
"""Write selftest/reviewed_shape.json: for every function of the reviewed tree the identifiers it
mentions.  Used only to make comparisons *more lenient* (an identifier the reviewed function did not
contain marks an expression as renamed / restructured), never to flag anything."""
import ast, json, os, sys
V = os.path.dirname(os.path.dirname(os.path.abspath(__file__)))
sys.path.insert(0, V)
from pmverif.core import Program
from pmverif.norm import Resolver, assigned_names, shape_of
prog = Program()
out = {}
for fn in prog.all_funcs():
    from pmverif.core import walk_own
    out[fn.key] = {
        "names": sorted({n.id for n in ast.walk(fn.node) if isinstance(n, ast.Name)} | {a.arg for a in ast.walk(fn.node) if isinstance(a, ast.arg)}),
        "stmts": sorted(" ".join(ast.unparse(st).split()) for st in walk_own(fn.node) if isinstance(st, (ast.Assign, ast.AnnAssign, ast.AugAssign, ast.Expr, ast.Return, ast.Raise, ast.Break, ast.Continue, ast.Delete, ast.Assert)) and not (isinstance(st, ast.Expr) and isinstance(st.value, ast.Constant))),
        "tests": sorted(" ".join(ast.unparse(st.test).split()) for st in walk_own(fn.node) if isinstance(st, (ast.If, ast.While))) + sorted("for " + " ".join(ast.unparse(st.target).split()) + " in " + " ".join(ast.unparse(st.iter).split()) for st in walk_own(fn.node) if isinstance(st, ast.For)),
        "shape": shape_of(fn.node),
        "locals": sorted((assigned_names([fn.node]) | set(fn.params())) - {fn.name}),
        "defs": {k: " ".join(ast.unparse(e).split()) for k, e in sorted(Resolver(fn.node).defs.items())},
        "returns": sorted(" ".join(ast.unparse(r.value).split()) if r.value is not None else "None" for r in walk_own(fn.node) if isinstance(r, ast.Return)),
    }
json.dump(out, open(os.path.join(V, "selftest", "reviewed_shape.json"), "w"), indent=0, sort_keys=True)
print(len(out), "functions")
