#!/venv/bin/python
"""Write selftest/reviewed_names.json: for every function of the reviewed tree the identifiers it
mentions.  Used only to make comparisons *more lenient* (an identifier the reviewed function did not
contain marks an expression as renamed / restructured), never to flag anything."""
import ast, json, os, sys
V = os.path.dirname(os.path.dirname(os.path.abspath(__file__)))
sys.path.insert(0, V)
from pmverif.core import Program
prog = Program()
out = {}
for fn in prog.all_funcs():
    out[fn.key] = sorted({n.id for n in ast.walk(fn.node) if isinstance(n, ast.Name)} | {a.arg for a in ast.walk(fn.node) if isinstance(a, ast.arg)})
json.dump(out, open(os.path.join(V, "selftest", "reviewed_names.json"), "w"), indent=0, sort_keys=True)
print(len(out), "functions")
