#!/venv/bin/python
"""Run all checks on every filed twin (selftest/twins/*.diff); a twin must never exit 1.
usage: alltwins.py [name-filter]"""
import glob, os, shutil, subprocess, sys, tempfile
from concurrent.futures import ThreadPoolExecutor
flt = sys.argv[1] if len(sys.argv) > 1 else ""
def one(p):
    name = os.path.basename(p)[:-5]
    d = tempfile.mkdtemp(prefix="tw_")
    try:
        shutil.copytree("/repo/prosemirror", f"{d}/prosemirror")
        shutil.copy("/repo/pyproject.toml", d)
        ap = subprocess.run(["patch", "-p1", "-s", "-d", d, "-i", p], capture_output=True, text=True)
        if ap.returncode:
            return name, "PATCH-FAIL", []
        env = dict(os.environ, PMVERIF_REPO=d, PMVERIF_NO_EVIDENCE="1")
        pr = subprocess.run(["/verif/check", "all", "--root", d], capture_output=True, text=True, env=env)
        lines = [l for l in pr.stdout.splitlines() if l.startswith(("VIOLATION", "  FINDING", "ANALYSIS-ERROR"))]
        st = "VIOLATION" if any(l.startswith("VIOLATION") for l in lines) else ("error" if lines else "silent")
        return name, st, lines
    finally:
        shutil.rmtree(d, ignore_errors=True)
ps = sorted(p for p in glob.glob("/verif/selftest/twins/*.diff") if flt in p)
cnt = {}
with ThreadPoolExecutor(12) as ex:
    for name, st, lines in ex.map(one, ps):
        cnt[st] = cnt.get(st, 0) + 1
        if st != "silent":
            print(name, st)
            for l in lines:
                if st == "VIOLATION" or "-v" in sys.argv:
                    print("     ", l[:300])
print(cnt)
