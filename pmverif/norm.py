"""Canonical forms: guard facts, local-variable resolution, linear normal form."""

from __future__ import annotations

import ast
import copy
from fractions import Fraction
from typing import Iterable

from .core import src, walk_own

NEG = {ast.Lt: ast.GtE, ast.LtE: ast.Gt, ast.Gt: ast.LtE, ast.GtE: ast.Lt, ast.Eq: ast.NotEq, ast.NotEq: ast.Eq, ast.Is: ast.IsNot, ast.IsNot: ast.Is, ast.In: ast.NotIn, ast.NotIn: ast.In}
SYM = {ast.Lt: "<", ast.LtE: "<=", ast.Gt: ">", ast.GtE: ">=", ast.Eq: "==", ast.NotEq: "!=", ast.Is: "is", ast.IsNot: "is not", ast.In: "in", ast.NotIn: "not in"}
FLIP = {ast.Gt: ast.Lt, ast.GtE: ast.LtE}


def _cmp_fact(left: ast.expr, op: type, right: ast.expr, sub) -> str:
    l, r = sub(left), sub(right)
    if op in FLIP:
        op = FLIP[op]
        l, r = r, l
    if op in (ast.Eq, ast.NotEq) and l > r:
        l, r = r, l
    return f"{l} {SYM[op]} {r}"


class _Walrus(ast.NodeTransformer):
    def visit_NamedExpr(self, node: ast.NamedExpr) -> ast.AST:
        return node.target


def _strip_walrus(e: ast.expr) -> ast.expr:
    if any(isinstance(x, ast.NamedExpr) for x in ast.walk(e)):
        return _Walrus().visit(clone(e))
    return e


def facts(atom: ast.expr, outcome: bool, sub=src) -> list[str]:
    """Canonical facts implied by atom == outcome.  `(x := e)` inside a test
    stands for `x` (the binding is an assignment event, not part of the fact)."""
    if isinstance(atom, ast.NamedExpr):
        return facts(atom.target, outcome, sub)
    atom = _strip_walrus(atom)
    return _facts(atom, outcome, sub)


def _facts(atom: ast.expr, outcome: bool, sub=src) -> list[str]:
    if isinstance(atom, ast.UnaryOp) and isinstance(atom.op, ast.Not):
        return facts(atom.operand, not outcome, sub)
    if isinstance(atom, ast.BoolOp):
        if isinstance(atom.op, ast.And) and outcome or isinstance(atom.op, ast.Or) and not outcome:
            return [f for v in atom.values for f in facts(v, outcome, sub)]
        return [("truthy(" if outcome else "falsy(") + sub(atom) + ")"]
    if isinstance(atom, ast.Compare):
        if len(atom.ops) == 1:
            op = type(atom.ops[0])
            if not outcome:
                op = NEG[op]
            return [_cmp_fact(atom.left, op, atom.comparators[0], sub)]
        if outcome:
            out = []
            left = atom.left
            for o, c in zip(atom.ops, atom.comparators):
                out.append(_cmp_fact(left, type(o), c, sub))
                left = c
            return out
        return ["falsy(" + sub(atom) + ")"]
    if isinstance(atom, ast.Call) and isinstance(atom.func, ast.Name) and atom.func.id == "bool" and len(atom.args) == 1:
        return facts(atom.args[0], outcome, sub)
    if isinstance(atom, ast.Call) and isinstance(atom.func, ast.Name) and atom.func.id == "len" and len(atom.args) == 1:
        return [("nonempty(" if outcome else "empty(") + sub(atom.args[0]) + ")"]
    if isinstance(atom, ast.Call) and isinstance(atom.func, ast.Attribute) and atom.func.attr in SYMMETRIC_METHODS and len(atom.args) == 1 and not atom.keywords:
        # `a.eq(b)` and `b.eq(a)` are one fact: the operands in a fixed order
        a, b = sub(atom.func.value), sub(atom.args[0])
        if b < a:
            a, b = b, a
        return [("truthy(" if outcome else "falsy(") + f"{a}.{atom.func.attr}({b})" + ")"]
    return [("truthy(" if outcome else "falsy(") + sub(atom) + ")"]


# methods whose answer does not depend on which operand is the receiver (audited: Node / Mark /
# Fragment `eq`, `same_markup`, NodeType.compatible_content = equal type or a shared first child type,
# ContentMatch.compatible)
SYMMETRIC_METHODS = {"eq", "same_markup", "compatible_content", "compatible"}


def fact_set(guards: Iterable[tuple[ast.expr, bool]], sub=src) -> set[str]:
    out: set[str] = set()
    for a, o in guards:
        out.update(facts(a, o, sub))
    return out


def clone(n):
    """Deep copy of an AST sub-tree that does not follow the `_parent` links."""
    if isinstance(n, ast.AST):
        new = type(n)()
        for f in n._fields:
            if hasattr(n, f):
                setattr(new, f, clone(getattr(n, f)))
        for a in ("lineno", "col_offset", "end_lineno", "end_col_offset"):
            if hasattr(n, a):
                setattr(new, a, getattr(n, a))
        return new
    if isinstance(n, list):
        return [clone(x) for x in n]
    return n


# --------------------------------------------------------------------------
def _simple_assign(st: ast.stmt) -> str | None:
    if isinstance(st, ast.Assign) and len(st.targets) == 1 and isinstance(st.targets[0], ast.Name):
        return st.targets[0].id
    if isinstance(st, ast.AnnAssign) and st.value is not None and isinstance(st.target, ast.Name):
        return st.target.id
    return None


class Resolver:
    """Substitute single-assignment locals by their defining expression
    (depth-bounded), so that `two = one.match_fragment(...)` followed by a
    test of `two` is seen as a test of the call."""

    def __init__(self, fn: ast.AST, depth: int = 4, keep: Iterable[str] = ()) -> None:
        self.defs: dict[str, ast.expr] = {}
        counts: dict[str, int] = {}
        params: set[str] = set()
        if isinstance(fn, (ast.FunctionDef, ast.AsyncFunctionDef, ast.Lambda)):
            a = fn.args
            params = {x.arg for x in [*a.posonlyargs, *a.args, *a.kwonlyargs]}
            if a.vararg:
                params.add(a.vararg.arg)
            if a.kwarg:
                params.add(a.kwarg.arg)
        self.params = params
        cands: dict[str, ast.expr] = {}
        for n in walk_own(fn):
            for name, val in _assignments(n):
                counts[name] = counts.get(name, 0) + 1
                if val is not None:
                    cands[name] = val
                else:
                    counts[name] += 1  # opaque binding
        mutated: set[str] = set()
        for n in walk_own(fn):
            # a local container that is changed in place after its definition is not its defining expression
            if isinstance(n, ast.Call) and isinstance(n.func, ast.Attribute) and isinstance(n.func.value, ast.Name) and n.func.attr in ("append", "extend", "insert", "pop", "remove", "sort", "reverse", "clear", "update", "setdefault", "add", "discard"):
                mutated.add(n.func.value.id)
            if isinstance(n, ast.Subscript) and isinstance(n.ctx, (ast.Store, ast.Del)) and isinstance(n.value, ast.Name):
                mutated.add(n.value.id)
        for name, c in counts.items():
            if c == 1 and name in cands and name not in params and name not in set(keep) and name not in mutated:
                self.defs[name] = cands[name]
        # `if c: x = A else: x = B`  ==  `x = A if c else B`;  `x = B` ... `if c: x = A`  ==  the same:
        # a local with exactly these two bindings is its conditional expression
        def _only_assign(block: list[ast.stmt], name: str) -> ast.expr | None:
            hits = [st for st in block if _simple_assign(st) == name]
            return hits[0].value if len(hits) == 1 else None

        def _simple_assign(st: ast.stmt) -> str | None:
            if isinstance(st, ast.Assign) and len(st.targets) == 1 and isinstance(st.targets[0], ast.Name):
                return st.targets[0].id
            if isinstance(st, ast.AnnAssign) and st.value is not None and isinstance(st.target, ast.Name):
                return st.target.id
            return None

        def _blocks(node: ast.AST):
            for fld in ("body", "orelse", "finalbody"):
                b = getattr(node, fld, None)
                if isinstance(b, list) and b and isinstance(b[0], ast.stmt):
                    yield b
            for h in getattr(node, "handlers", []) or []:
                yield h.body

        two = {n for n, c in counts.items() if c == 2 and n not in params and n not in set(keep) and n not in mutated}
        if two:
            for node in [fn, *walk_own(fn)]:
                for block in _blocks(node):
                    for idx, st in enumerate(block):
                        if not isinstance(st, ast.If):
                            continue
                        for name in list(two):
                            a = _only_assign(st.body, name)
                            if a is None:
                                continue
                            b = _only_assign(st.orelse, name) if st.orelse else None
                            if b is None and not st.orelse:
                                # default before the `if` in the same block, not read in between
                                prev = [p for p in block[:idx] if _simple_assign(p) == name]
                                if len(prev) == 1:
                                    k = block.index(prev[0])
                                    between = block[k + 1 : idx]
                                    used = any(isinstance(x, ast.Name) and x.id == name for p in between for x in ast.walk(p)) or any(isinstance(x, ast.Name) and x.id == name for x in ast.walk(st.test))
                                    if not used:
                                        b = prev[0].value
                            if b is None:
                                continue
                            e = ast.IfExp(test=clone(st.test), body=clone(a), orelse=clone(b))
                            self.defs[name] = ast.fix_missing_locations(ast.copy_location(e, st))
                            two.discard(name)
        # a defaulted parameter: `if c: p = A` (the only assignment to parameter p, at the top level of
        # the function, before any other use of p than in c)  ==  `p = A if c else p`
        self.selfdefs: set[str] = set()
        body = list(getattr(fn, "body", []))
        for idx, st in enumerate(body):
            if isinstance(st, ast.If) and not st.orelse and len(st.body) == 1:
                nm = _simple_assign(st.body[0])
                if nm in params and counts.get(nm) == 1 and nm not in mutated and nm not in set(keep):
                    used_before = any(isinstance(x, ast.Name) and x.id == nm for p_ in body[:idx] for x in ast.walk(p_))
                    if not used_before:
                        e = ast.IfExp(test=clone(st.test), body=clone(st.body[0].value), orelse=ast.Name(id=nm, ctx=ast.Load()))  # type: ignore[attr-defined]
                        self.defs[nm] = ast.fix_missing_locations(ast.copy_location(e, st))
                        self.selfdefs.add(nm)
        # a parameter re-bound exactly once at the top level by an expression over itself
        # (`to = self.size if to is None else to`, `to = to or self.size`) is that definition as well
        for idx, st in enumerate(body):
            nm = _simple_assign(st)
            if nm in params and counts.get(nm) == 1 and nm not in mutated and nm not in set(keep) and nm not in self.defs:
                val = st.value  # type: ignore[attr-defined]
                if any(isinstance(x, ast.Name) and x.id == nm for x in ast.walk(val)):
                    used_before = any(isinstance(x, ast.Name) and x.id == nm for p_ in body[:idx] for x in ast.walk(p_))
                    if not used_before:
                        self.defs[nm] = val
                        self.selfdefs.add(nm)
        # `self.x = E` assigned exactly once in a method (not a constructor): a later read of `self.x`
        # in the same method is E (no call in between can be seen to change it - same caveat as for locals)
        self.attrdefs: dict[str, tuple[int, ast.expr]] = {}
        if isinstance(fn, (ast.FunctionDef, ast.AsyncFunctionDef)) and fn.name != "__init__":
            stores: dict[str, list] = {}
            for n in walk_own(fn):
                if isinstance(n, (ast.Assign, ast.AugAssign, ast.AnnAssign)):
                    tg = n.targets if isinstance(n, ast.Assign) else [n.target]
                    for t in tg:
                        for x in ast.walk(t):
                            if isinstance(x, ast.Attribute) and isinstance(x.value, ast.Name) and x.value.id == "self" and isinstance(x.ctx, ast.Store):
                                stores.setdefault(x.attr, []).append(n)
            for attr, ns in stores.items():
                n0 = ns[0]
                if len(ns) == 1 and isinstance(n0, ast.Assign) and len(n0.targets) == 1 and isinstance(n0.targets[0], ast.Attribute) and not any(isinstance(y, ast.Attribute) and isinstance(y.value, ast.Name) and y.value.id == "self" and y.attr == attr for y in ast.walk(n0.value)):
                    self.attrdefs[attr] = (n0.lineno, n0.value)
        self.depth = depth

    def expr(self, e: ast.expr, depth: int | None = None, _skip: frozenset = frozenset()) -> ast.expr:
        depth = self.depth if depth is None else depth
        if depth <= 0:
            return e
        defs = self.defs
        outer = self

        class T(ast.NodeTransformer):
            def visit_Name(self, node: ast.Name) -> ast.AST:
                if isinstance(node.ctx, ast.Load) and node.id in defs and node.id not in _skip:
                    # a defaulted parameter is defined in terms of itself (`p = A if p is None else p`):
                    # its own occurrences inside the definition are the incoming value
                    sk = _skip | {node.id} if node.id in outer.selfdefs else _skip
                    return outer.expr(clone(defs[node.id]), depth - 1, sk)
                return node

            def visit_Attribute(self, node: ast.Attribute) -> ast.AST:
                if isinstance(node.ctx, ast.Load) and isinstance(node.value, ast.Name) and node.value.id == "self" and node.attr in outer.attrdefs:
                    line, val = outer.attrdefs[node.attr]
                    if getattr(node, "_orig_lineno", getattr(node, "lineno", 0)) > line and getattr(node, "_in_fn", False):
                        return outer.expr(clone(val), depth - 1, _skip)
                self.generic_visit(node)
                return node

            def visit_Lambda(self, node: ast.Lambda) -> ast.AST:
                return node

        # reads of `self.x` are only replaced in expressions that belong to the function itself
        own = any(getattr(x, "_parent", None) is not None for x in [e])
        c = clone(e)
        if own and outer.attrdefs:
            for a, b in zip(ast.walk(e), ast.walk(c)):
                if isinstance(b, ast.Attribute):
                    b._in_fn = True  # type: ignore[attr-defined]
                    b._orig_lineno = getattr(a, "lineno", 0)  # type: ignore[attr-defined]
        return T().visit(c)

    def src(self, e: ast.expr) -> str:
        return src(self.expr(e))

    def src_at(self, depth: int):
        return lambda e: src(self.expr(e, depth))


def _assignments(n: ast.AST):
    """Yield (name, value-or-None) for every binding performed by node n."""
    if isinstance(n, ast.Assign):
        for t in n.targets:
            yield from _bind(t, n.value)
    elif isinstance(n, ast.AnnAssign) and n.value is not None:
        yield from _bind(n.target, n.value)
    elif isinstance(n, ast.AugAssign):
        for nm in _names(n.target):
            yield nm, None
            yield nm, None
    elif isinstance(n, (ast.For, ast.AsyncFor)):
        it = n.iter
        if isinstance(n.target, ast.Tuple) and len(n.target.elts) == 2 and all(isinstance(x, ast.Name) for x in n.target.elts) and isinstance(it, ast.Call) and isinstance(it.func, ast.Name) and it.func.id == "enumerate" and len(it.args) == 1 and not it.keywords and isinstance(it.args[0], (ast.Name, ast.Attribute)):
            # `for i, x in enumerate(xs)`: x is xs[i] (the index stays an opaque loop variable)
            yield n.target.elts[0].id, None  # type: ignore[attr-defined]
            sub = ast.Subscript(value=it.args[0], slice=ast.Name(id=n.target.elts[0].id, ctx=ast.Load()), ctx=ast.Load())  # type: ignore[attr-defined]
            yield n.target.elts[1].id, ast.fix_missing_locations(ast.copy_location(sub, it))  # type: ignore[attr-defined]
        else:
            for nm in _names(n.target):
                yield nm, None
    elif isinstance(n, ast.NamedExpr):
        yield from _bind(n.target, n.value)
    elif isinstance(n, (ast.With, ast.AsyncWith)):
        for it in n.items:
            if it.optional_vars is not None:
                for nm in _names(it.optional_vars):
                    yield nm, None
    elif isinstance(n, ast.comprehension):
        for nm in _names(n.target):
            yield nm, None
    elif isinstance(n, ast.ExceptHandler) and n.name:
        yield n.name, None
    elif isinstance(n, (ast.FunctionDef, ast.AsyncFunctionDef, ast.ClassDef)):
        yield n.name, None
    elif isinstance(n, (ast.Nonlocal, ast.Global)):
        for nm in n.names:
            yield nm, None
            yield nm, None


def _bind(t: ast.expr, value: ast.expr):
    if isinstance(t, ast.Name):
        yield t.id, value
    elif isinstance(t, (ast.Tuple, ast.List)):
        if isinstance(value, (ast.Tuple, ast.List)) and len(value.elts) == len(t.elts) and not any(isinstance(x, ast.Starred) for x in [*t.elts, *value.elts]):
            for a, b in zip(t.elts, value.elts):
                yield from _bind(a, b)
        else:
            for i, a in enumerate(t.elts):
                if isinstance(a, ast.Name):
                    sub = ast.Subscript(value=value, slice=ast.Constant(value=i), ctx=ast.Load())
                    yield a.id, ast.fix_missing_locations(ast.copy_location(sub, value))
                else:
                    for nm in _names(a):
                        yield nm, None
    # attribute / subscript targets bind no local name


def _names(t: ast.AST) -> list[str]:
    return [x.id for x in ast.walk(t) if isinstance(x, ast.Name)]


def assigned_names(stmts: Iterable[ast.AST]) -> set[str]:
    out: set[str] = set()
    for s in stmts:
        for n in ast.walk(s):
            for nm, _ in _assignments(n):
                out.add(nm)
    return out


# --------------------------------------------------------------------------
# linear normal form over opaque atoms (own code; not a solver)
Lin = dict[str, Fraction]  # atom-string -> coefficient, "" is the constant


def linear(e: ast.expr, atom=src, rewrite=None) -> Lin:
    """a + (b - c) and a - c + b get the same dict.  Non-linear sub-terms
    become atoms (by canonical source text)."""
    if rewrite is not None:
        r = rewrite(e)
        if r is not None:
            return r
    if isinstance(e, ast.Constant) and isinstance(e.value, (int, float)) and not isinstance(e.value, bool):
        return {"": Fraction(e.value)} if e.value else {}
    if isinstance(e, ast.UnaryOp) and isinstance(e.op, ast.USub):
        return {k: -v for k, v in linear(e.operand, atom, rewrite).items()}
    if isinstance(e, ast.UnaryOp) and isinstance(e.op, ast.UAdd):
        return linear(e.operand, atom, rewrite)
    if isinstance(e, ast.BinOp) and isinstance(e.op, (ast.Add, ast.Sub)):
        a = linear(e.left, atom, rewrite)
        b = linear(e.right, atom, rewrite)
        sign = 1 if isinstance(e.op, ast.Add) else -1
        out = dict(a)
        for k, v in b.items():
            out[k] = out.get(k, Fraction(0)) + sign * v
        return {k: v for k, v in out.items() if v != 0}
    if isinstance(e, ast.BinOp) and isinstance(e.op, ast.Mult):
        a = linear(e.left, atom, rewrite)
        b = linear(e.right, atom, rewrite)
        if set(a) <= {""}:
            c = a.get("", Fraction(0))
            return {k: v * c for k, v in b.items() if v * c != 0}
        if set(b) <= {""}:
            c = b.get("", Fraction(0))
            return {k: v * c for k, v in a.items() if v * c != 0}
    return {atom(e): Fraction(1)}


def lin_str(l: Lin) -> str:
    parts = []
    for k in sorted(l):
        v = l[k]
        if k == "":
            parts.append(str(v))
        elif v == 1:
            parts.append(k)
        elif v == -1:
            parts.append("-" + k)
        else:
            parts.append(f"{v}*{k}")
    return " + ".join(parts).replace("+ -", "- ") if parts else "0"


def lin_sub(a: Lin, b: Lin) -> Lin:
    out = dict(a)
    for k, v in b.items():
        out[k] = out.get(k, Fraction(0)) - v
    return {k: v for k, v in out.items() if v != 0}


# ---------------------------------------------------------------- control shape
def shape_of(fn: ast.AST) -> str:
    """Fingerprint of a function's control skeleton, insensitive to what behaviour-preserving
    clean-ups change but the analyses see through: names, expressions, assignments to local names
    (introduced / inlined / hoisted locals, loop counters), `while` vs `for`, the order of the two
    branches of an `if`, a guard clause vs an `else`.  Sensitive to: the nesting of branches and
    loops and the exits (return / raise / break / continue), call statements and stores into
    attributes or subscripts inside them."""

    def term(block: list[ast.stmt]) -> bool:
        return bool(block) and isinstance(block[-1], (ast.Return, ast.Raise, ast.Continue, ast.Break))

    def blk(block: list[ast.stmt], tail: str | None = None) -> str:
        """tail: "fn" when falling off the end of this block ends the function, "loop" when it ends
        the current iteration - a bare `return` / `continue` in that position changes nothing
        (`if a: X elif b: Y`  ==  `if a: X; return` + `if b: Y`)."""
        out: list[str] = []
        i = 0
        while i < len(block):
            s = block[i]
            last = i == len(block) - 1
            if isinstance(s, (ast.FunctionDef, ast.AsyncFunctionDef, ast.ClassDef, ast.Import, ast.ImportFrom, ast.Pass, ast.Global, ast.Nonlocal, ast.Assert)):
                i += 1
                continue
            if isinstance(s, ast.Expr) and isinstance(s.value, ast.Constant):
                i += 1
                continue
            if isinstance(s, ast.If):
                body, orelse = s.body, s.orelse
                rest = block[i + 1 :]
                absorbed = False
                if not orelse and term(body) and rest:
                    orelse, absorbed = rest, True
                t2 = tail if (last or absorbed) else None
                a, b = blk(body, t2), blk(orelse, t2)
                if a or b:
                    out.append("if{" + "|".join(sorted([a, b])) + "}")
                if absorbed:
                    break
                i += 1
                continue
            if isinstance(s, (ast.For, ast.AsyncFor, ast.While)):
                out.append("loop{" + blk(s.body, "loop") + ("|else:" + blk(s.orelse) if s.orelse else "") + "}")
            elif isinstance(s, ast.Try):
                out.append("try{" + blk(s.body) + "|" + "|".join(blk(h.body) for h in s.handlers) + ("|" + blk(s.finalbody) if s.finalbody else "") + "}")
            elif isinstance(s, (ast.With, ast.AsyncWith)):
                out.append("with{" + blk(s.body) + "}")
            elif isinstance(s, ast.Return):
                if not (last and tail == "fn" and (s.value is None or (isinstance(s.value, ast.Constant) and s.value.value is None))):
                    out.append("ret")
            elif isinstance(s, ast.Raise):
                out.append("raise")
            elif isinstance(s, ast.Break):
                out.append("break")
            elif isinstance(s, ast.Continue):
                if not (last and tail == "loop"):
                    out.append("continue")
            elif isinstance(s, ast.Expr):
                out.append("call")
            elif isinstance(s, (ast.Assign, ast.AnnAssign, ast.AugAssign)):
                tgts = s.targets if isinstance(s, ast.Assign) else [s.target]
                if any(isinstance(x, (ast.Attribute, ast.Subscript)) for t in tgts for x in ([t] if not isinstance(t, (ast.Tuple, ast.List)) else t.elts)):
                    out.append("store")
            elif isinstance(s, ast.Delete):
                out.append("del")
            i += 1
        return ",".join(out)

    return blk(list(getattr(fn, "body", [])), "fn")
