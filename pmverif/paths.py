"""Structured (AST-directed) path enumeration through a statement list.

Used by the loop-progress rule (RL) and the pairing rule (RP).  Inner loops
are summarised as one 'loop' event (their body may run any number of times);
tests are decomposed into short-circuit evaluation sequences.
"""

from __future__ import annotations

import ast
from dataclasses import dataclass, field

CAP = 5000


class TooManyPaths(Exception):
    pass


@dataclass
class Ev:
    kind: str  # cond assign aug expr loop maybe bind
    node: ast.AST
    outcome: bool | None = None


@dataclass
class Path:
    events: list[Ev] = field(default_factory=list)
    term: str = "fall"  # fall continue break return raise
    term_node: ast.AST | None = None

    def extend(self, other: "Path") -> "Path":
        return Path(self.events + other.events, other.term, other.term_node)


def cond_paths(test: ast.expr) -> list[tuple[list[Ev], bool]]:
    if isinstance(test, ast.BoolOp):
        is_and = isinstance(test.op, ast.And)
        partial: list[tuple[list[Ev], bool]] = [([], is_and)]
        done: list[tuple[list[Ev], bool]] = []
        for v in test.values:
            nxt = []
            for evs, _ in partial:
                for evs2, res in cond_paths(v):
                    if res == is_and:
                        nxt.append((evs + evs2, res))
                    else:
                        done.append((evs + evs2, res))
            partial = nxt
        return done + partial
    if isinstance(test, ast.UnaryOp) and isinstance(test.op, ast.Not):
        return [(e, not r) for e, r in cond_paths(test.operand)]
    if isinstance(test, ast.Constant):
        return [([], bool(test.value))]
    if isinstance(test, ast.NamedExpr):
        return [([Ev("assign", test), Ev("cond", test, True)], True), ([Ev("assign", test), Ev("cond", test, False)], False)]
    return [([Ev("cond", test, True)], True), ([Ev("cond", test, False)], False)]


def enum_paths(stmts: list[ast.stmt], cap: int = CAP) -> list[Path]:
    paths = [Path()]
    for s in stmts:
        live = [p for p in paths if p.term == "fall"]
        dead = [p for p in paths if p.term != "fall"]
        if not live:
            break
        new: list[Path] = []
        for sp in _stmt_paths(s, cap):
            for p in live:
                new.append(p.extend(sp))
                if len(new) + len(dead) > cap:
                    raise TooManyPaths
        paths = dead + new
    return paths


def _stmt_paths(s: ast.stmt, cap: int) -> list[Path]:
    if isinstance(s, ast.If):
        out: list[Path] = []
        for evs, res in cond_paths(s.test):
            for bp in enum_paths(s.body if res else s.orelse, cap):
                out.append(Path(evs + bp.events, bp.term, bp.term_node))
        return out
    if isinstance(s, (ast.While, ast.For, ast.AsyncFor)):
        # summarised; a `return`/`raise` inside leaves the function, noted on the event
        return [Path([Ev("loop", s)])]
    if isinstance(s, ast.Try):
        out = []
        body = enum_paths(s.body, cap)
        for bp in body:
            if bp.term == "fall" and s.orelse:
                for ep in enum_paths(s.orelse, cap):
                    out.append(bp.extend(ep))
            else:
                out.append(bp)
        for h in s.handlers:
            for hp in enum_paths(h.body, cap):
                out.append(Path([Ev("maybe", s)] + hp.events, hp.term, hp.term_node))
        if s.finalbody:
            fin = enum_paths(s.finalbody, cap)
            out2 = []
            for p in out:
                for f in fin:
                    if f.term == "fall":
                        out2.append(Path(p.events + f.events, p.term, p.term_node))
                    else:
                        out2.append(p.extend(f))
            out = out2
        return out
    if isinstance(s, (ast.With, ast.AsyncWith)):
        pre = [Ev("expr", it.context_expr) for it in s.items]
        return [Path(pre + p.events, p.term, p.term_node) for p in enum_paths(s.body, cap)]
    if isinstance(s, ast.Return):
        return [Path([Ev("expr", s.value)] if s.value is not None else [], "return", s)]
    if isinstance(s, ast.Raise):
        return [Path([], "raise", s)]
    if isinstance(s, ast.Break):
        return [Path([], "break", s)]
    if isinstance(s, ast.Continue):
        return [Path([], "continue", s)]
    if isinstance(s, ast.Assert):
        out = []
        for evs, res in cond_paths(s.test):
            out.append(Path(evs, "fall" if res else "raise", s))
        return out
    if isinstance(s, (ast.Assign, ast.AnnAssign)):
        if isinstance(s, ast.AnnAssign) and s.value is None:
            return [Path()]
        return [Path([Ev("assign", s)])]
    if isinstance(s, ast.AugAssign):
        return [Path([Ev("aug", s)])]
    if isinstance(s, ast.Expr):
        return [Path([Ev("expr", s.value)])]
    if isinstance(s, (ast.FunctionDef, ast.AsyncFunctionDef, ast.ClassDef)):
        return [Path([Ev("bind", s)])]
    if isinstance(s, ast.Delete):
        return [Path([Ev("expr", s)])]
    return [Path()]  # pass, import, global, nonlocal
