"""E2: statement-level control-flow graph with condition edges.

Nodes are simple statements and *atomic* test evaluations; `and`/`or`/`not`
in test position are compiled to short-circuit edges, every atomic test has a
synthetic successor per outcome (kind 'T' / 'F'), so "guarded by G being
true" is node dominance by the T-node of G.  Inside expressions (IfExp,
BoolOp in value position, comprehension filters) guards are obtained by a
syntactic walk (`expr_guards`).
"""

from __future__ import annotations

import ast
from dataclasses import dataclass, field
from typing import Callable, Iterable

from .core import parent_of


@dataclass(eq=False)
class N:
    kind: str  # entry exit stmt cond T F for-iter for-exit join
    node: ast.AST | None = None
    succ: list["N"] = field(default_factory=list)
    pred: list["N"] = field(default_factory=list)
    idx: int = 0
    cond: "N | None" = None  # for T/F: the cond node

    def __repr__(self) -> str:  # pragma: no cover
        return f"<{self.idx}:{self.kind} {ast.unparse(self.node)[:40] if self.node is not None else ''}>"


class CFG:
    def __init__(self, fn: ast.AST, noreturn: Callable[[ast.Call], bool] | None = None) -> None:
        self.fn = fn
        self.nodes: list[N] = []
        self.entry = self._new("entry")
        self.exit = self._new("exit")  # normal return
        self.raise_exit = self._new("raise")  # exceptional exit
        self.noreturn = noreturn or (lambda c: False)
        self.stmt_node: dict[int, N] = {}  # id(ast stmt) -> first node of the stmt
        self.cond_nodes: dict[int, N] = {}  # id(ast expr) -> cond node
        self._loop_stack: list[tuple[N, N]] = []  # (continue target, break target)
        self._try_stack: list[list[N]] = []  # handler entry nodes
        body = fn.body if not isinstance(fn, ast.Lambda) else [ast.Return(value=fn.body)]
        end = self._seq(body, [self.entry])
        for e in end:
            self._edge(e, self.exit)
        self._dom: dict[N, set[N]] | None = None

    # ------------------------------------------------------------- building
    def _new(self, kind: str, node: ast.AST | None = None) -> N:
        n = N(kind, node, idx=len(self.nodes))
        self.nodes.append(n)
        return n

    def _edge(self, a: N, b: N) -> None:
        if b not in a.succ:
            a.succ.append(b)
            b.pred.append(a)

    def _link(self, frm: list[N], to: N) -> None:
        for f in frm:
            self._edge(f, to)

    def _seq(self, stmts: list[ast.stmt], frm: list[N]) -> list[N]:
        cur = frm
        for s in stmts:
            cur = self._stmt(s, cur)
        return cur

    def _maybe_raise(self, n: N) -> None:
        """Any statement inside a try body may transfer to the handlers."""
        if self._try_stack:
            for h in self._try_stack[-1]:
                self._edge(n, h)

    def _cond(self, test: ast.expr, frm: list[N]) -> tuple[list[N], list[N]]:
        """Compile a test; returns (true-exits, false-exits)."""
        if isinstance(test, ast.BoolOp):
            if isinstance(test.op, ast.And):
                cur = frm
                falses: list[N] = []
                for v in test.values:
                    t, f = self._cond(v, cur)
                    falses += f
                    cur = t
                return cur, falses
            cur = frm
            trues: list[N] = []
            for v in test.values:
                t, f = self._cond(v, cur)
                trues += t
                cur = f
            return trues, cur
        if isinstance(test, ast.UnaryOp) and isinstance(test.op, ast.Not):
            t, f = self._cond(test.operand, frm)
            return f, t
        if isinstance(test, ast.IfExp):
            # (A if C else B) in test position
            ct, cf = self._cond(test.test, frm)
            at, af = self._cond(test.body, ct)
            bt, bf = self._cond(test.orelse, cf)
            return at + bt, af + bf
        if isinstance(test, ast.NamedExpr):
            # (x := e) : evaluate as an assignment node, then test x
            a = self._new("stmt", test)
            self._link(frm, a)
            self._maybe_raise(a)
            c = self._new("cond", test)
            self._edge(a, c)
        else:
            c = self._new("cond", test)
            self._link(frm, c)
            self._maybe_raise(c)
        self.cond_nodes[id(test)] = c
        const = _const_truth(test)
        tn = self._new("T", test)
        fn_ = self._new("F", test)
        tn.cond = c
        fn_.cond = c
        outs_t: list[N] = []
        outs_f: list[N] = []
        if const is not False:
            self._edge(c, tn)
            outs_t = [tn]
        if const is not True:
            self._edge(c, fn_)
            outs_f = [fn_]
        return outs_t, outs_f

    def _stmt(self, s: ast.stmt, frm: list[N]) -> list[N]:
        if not frm:
            # unreachable code: still build it (detached) so lookups work
            pass
        if isinstance(s, ast.If):
            first = len(self.nodes)
            t, f = self._cond(s.test, frm)
            self.stmt_node[id(s)] = self.nodes[first]
            a = self._seq(s.body, t)
            b = self._seq(s.orelse, f)
            return a + b
        if isinstance(s, ast.While):
            head = self._new("join", s)
            self.stmt_node[id(s)] = head
            self._link(frm, head)
            after = self._new("join", s)
            t, f = self._cond(s.test, [head])
            self._loop_stack.append((head, after))
            body_end = self._seq(s.body, t)
            self._loop_stack.pop()
            self._link(body_end, head)
            e = self._seq(s.orelse, f)
            self._link(e, after)
            return [after]
        if isinstance(s, (ast.For, ast.AsyncFor)):
            it = self._new("stmt", s.iter)  # evaluate iterable
            self._link(frm, it)
            self._maybe_raise(it)
            self.stmt_node[id(s)] = it
            head = self._new("for-iter", s)
            self._edge(it, head)
            nxt = self._new("for-next", s)  # target bound
            done = self._new("for-exit", s)
            self._edge(head, nxt)
            self._edge(head, done)
            after = self._new("join", s)
            self._loop_stack.append((head, after))
            body_end = self._seq(s.body, [nxt])
            self._loop_stack.pop()
            self._link(body_end, head)
            e = self._seq(s.orelse, [done])
            self._link(e, after)
            return [after]
        if isinstance(s, ast.Try):
            handlers = [self._new("handler", h) for h in s.handlers]
            entry = self._new("join", s)
            self.stmt_node[id(s)] = entry
            self._link(frm, entry)
            self._try_stack.append(handlers)
            for h in handlers:
                self._edge(entry, h)
            body_end = self._seq(s.body, [entry])
            self._try_stack.pop()
            else_end = self._seq(s.orelse, body_end)
            outs = list(else_end)
            for h, hn in zip(s.handlers, handlers):
                outs += self._seq(h.body, [hn])
            if s.finalbody:
                outs = self._seq(s.finalbody, outs)
            return outs
        if isinstance(s, (ast.With, ast.AsyncWith)):
            n = self._new("stmt", s)
            self.stmt_node[id(s)] = n
            self._link(frm, n)
            self._maybe_raise(n)
            return self._seq(s.body, [n])
        if isinstance(s, ast.Return):
            n = self._new("stmt", s)
            self.stmt_node[id(s)] = n
            self._link(frm, n)
            self._maybe_raise(n)
            self._edge(n, self.exit)
            return []
        if isinstance(s, ast.Raise):
            n = self._new("stmt", s)
            self.stmt_node[id(s)] = n
            self._link(frm, n)
            if self._try_stack:
                for h in self._try_stack[-1]:
                    self._edge(n, h)
            self._edge(n, self.raise_exit)
            return []
        if isinstance(s, ast.Break):
            n = self._new("stmt", s)
            self.stmt_node[id(s)] = n
            self._link(frm, n)
            if self._loop_stack:
                self._edge(n, self._loop_stack[-1][1])
            return []
        if isinstance(s, ast.Continue):
            n = self._new("stmt", s)
            self.stmt_node[id(s)] = n
            self._link(frm, n)
            if self._loop_stack:
                self._edge(n, self._loop_stack[-1][0])
            return []
        if isinstance(s, ast.Assert):
            first = len(self.nodes)
            t, f = self._cond(s.test, frm)
            self.stmt_node[id(s)] = self.nodes[first]
            for x in f:
                self._edge(x, self.raise_exit)
                self._maybe_raise(x)
            return t
        if isinstance(s, ast.Match):
            n = self._new("stmt", s)
            self.stmt_node[id(s)] = n
            self._link(frm, n)
            outs: list[N] = [n]
            for case in s.cases:
                outs += self._seq(case.body, [n])
            return outs
        # simple statements (incl. nested def / class)
        n = self._new("stmt", s)
        self.stmt_node[id(s)] = n
        self._link(frm, n)
        self._maybe_raise(n)
        if isinstance(s, ast.Expr) and isinstance(s.value, ast.Call) and self.noreturn(s.value):
            self._edge(n, self.raise_exit)
            return []
        return [n]

    # ------------------------------------------------------------ analysis
    def reachable(self) -> set[N]:
        seen = {self.entry}
        st = [self.entry]
        while st:
            n = st.pop()
            for s in n.succ:
                if s not in seen:
                    seen.add(s)
                    st.append(s)
        return seen

    def dominators(self) -> dict[N, set[N]]:
        if self._dom is not None:
            return self._dom
        reach = self.reachable()
        order = [n for n in self.nodes if n in reach]
        dom: dict[N, set[N]] = {n: set(order) for n in order}
        dom[self.entry] = {self.entry}
        changed = True
        while changed:
            changed = False
            for n in order:
                if n is self.entry:
                    continue
                preds = [p for p in n.pred if p in reach]
                new = set.intersection(*(dom[p] for p in preds)) if preds else set()
                new = new | {n}
                if new != dom[n]:
                    dom[n] = new
                    changed = True
        self._dom = dom
        return dom

    def reaching_defs(self) -> dict["N", dict[str, frozenset]]:
        """IN sets of a reaching-definitions analysis over local names: for every CFG node, name ->
        the set of definitions that may reach it.  A definition is the ast.Assign / ast.AnnAssign
        statement (simple `x = e`) or the marker "opaque" (loop targets, augmented assignments,
        walrus / with / except bindings, tuple targets, parameters)."""
        cached = getattr(self, "_rd", None)
        if cached is not None:
            return cached

        def gen(n: N) -> dict[str, object]:
            out: dict[str, object] = {}
            x = n.node
            if n.kind == "stmt" and isinstance(x, ast.Assign):
                for t in x.targets:
                    if isinstance(t, ast.Name):
                        out[t.id] = x if len(x.targets) == 1 else "opaque"
                    else:
                        for y in ast.walk(t):
                            if isinstance(y, ast.Name) and isinstance(y.ctx, ast.Store):
                                out[y.id] = "opaque"
            elif n.kind == "stmt" and isinstance(x, ast.AnnAssign) and x.value is not None and isinstance(x.target, ast.Name):
                out[x.target.id] = x
            elif n.kind == "stmt" and isinstance(x, ast.AugAssign):
                if isinstance(x.target, ast.Name):
                    out[x.target.id] = x  # `i += 1`: the value is the incoming one plus the operand
                else:
                    for y in ast.walk(x.target):
                        if isinstance(y, ast.Name):
                            out[y.id] = "opaque"
            elif n.kind == "for-next" and isinstance(x, (ast.For, ast.AsyncFor)):
                for y in ast.walk(x.target):
                    if isinstance(y, ast.Name):
                        out[y.id] = "opaque"
            elif n.kind == "handler" and isinstance(x, ast.ExceptHandler) and x.name:
                out[x.name] = "opaque"
            elif n.kind == "stmt" and isinstance(x, (ast.With, ast.AsyncWith)):
                for it in x.items:
                    if it.optional_vars is not None:
                        for y in ast.walk(it.optional_vars):
                            if isinstance(y, ast.Name):
                                out[y.id] = "opaque"
            if isinstance(x, ast.AST) and not isinstance(x, (ast.FunctionDef, ast.AsyncFunctionDef, ast.ClassDef, ast.For, ast.AsyncFor, ast.With, ast.AsyncWith, ast.ExceptHandler)):
                for y in ast.walk(x):
                    if isinstance(y, ast.NamedExpr) and isinstance(y.target, ast.Name) and n.kind in ("stmt", "cond"):
                        out[y.target.id] = "opaque"
            return out

        gens = {n: gen(n) for n in self.nodes}
        IN: dict[N, dict[str, frozenset]] = {n: {} for n in self.nodes}
        OUT: dict[N, dict[str, frozenset]] = {n: {} for n in self.nodes}
        args = getattr(self.fn, "args", None)
        if args is not None:
            OUT[self.entry] = {a.arg: frozenset(["opaque"]) for a in [*args.posonlyargs, *args.args, *args.kwonlyargs, *([args.vararg] if args.vararg else []), *([args.kwarg] if args.kwarg else [])]}
        work = list(self.nodes)
        while work:
            n = work.pop(0)
            if n is not self.entry:
                new_in: dict[str, frozenset] = {}
                for p in n.pred:
                    for k, vs in OUT[p].items():
                        new_in[k] = new_in.get(k, frozenset()) | vs
                IN[n] = new_in
                out = dict(new_in)
                for k, d in gens[n].items():
                    out[k] = frozenset([d])
            else:
                out = OUT[self.entry]
            if out != OUT[n]:
                OUT[n] = out
                for s_ in n.succ:
                    if s_ not in work:
                        work.append(s_)
        self._rd = IN
        return IN

    def node_for(self, node: ast.AST) -> N | None:
        """CFG node in which the given AST node is evaluated."""
        cur: ast.AST | None = node
        while cur is not None:
            if id(cur) in self.cond_nodes:
                return self.cond_nodes[id(cur)]
            if id(cur) in self.stmt_node and not isinstance(cur, (ast.If, ast.While, ast.Assert, ast.Try)):
                n = self.stmt_node[id(cur)]
                if isinstance(cur, (ast.For, ast.AsyncFor)):
                    # inside iter -> the iter node; inside target -> for-next
                    return n
                return n
            if isinstance(cur, (ast.For, ast.AsyncFor)) and id(cur) in self.stmt_node:
                return self.stmt_node[id(cur)]
            cur = parent_of(cur)
            if cur is self.fn:
                break
        return None

    def guards_at(self, node: ast.AST) -> list[tuple[ast.expr, bool]]:
        """(atomic test, outcome) pairs that hold whenever `node` is evaluated:
        statement-level dominance plus intra-expression short-circuit context."""
        out: list[tuple[ast.expr, bool]] = []
        n = self.node_for(node)
        if n is not None and n in self.dominators():
            for d in self.dominators()[n]:
                if d.kind in ("T", "F") and d is not n and isinstance(d.node, ast.expr):
                    out.append((d.node, d.kind == "T"))
            for d in self.dominators()[n]:
                if d.kind == "for-next" and isinstance(d.node, (ast.For, ast.AsyncFor)) and _inside(node, d.node.body):
                    out += range_facts(d.node)
        out += expr_guards(node, stop=self._stop_for(node))
        return out

    def _stop_for(self, node: ast.AST) -> ast.AST | None:
        cur: ast.AST | None = node
        while cur is not None:
            if id(cur) in self.cond_nodes or id(cur) in self.stmt_node:
                return cur
            cur = parent_of(cur)
        return None

    def must_pass(self, target: N, through: Iterable[N], nonnull: str | None = None) -> bool:
        """Every entry->target path passes one of `through`.  With `nonnull`
        = a local name, paths are pruned with a one-bit reaching-definition
        filter: after `name = None` (until the next assignment to it) the
        true edge of a test `name` / `name is not None` is infeasible."""
        block = set(through)
        if self.entry in block:
            return True
        start = (self.entry, False)
        seen = {start}
        st = [start]
        while st:
            n, isnone = st.pop()
            if n is target:
                return False
            if nonnull is not None and n.kind == "stmt" and n.node is not None:
                a = _assigns_name(n.node, nonnull)
                if a is not None:
                    isnone = a
            for s in n.succ:
                if s in block:
                    continue
                if nonnull is not None and isnone and s.kind in ("T", "F") and isinstance(s.node, ast.expr):
                    pol = _null_test(s.node, nonnull)
                    if pol is not None and ((s.kind == "T") == pol):
                        continue  # infeasible: the name is None on this path
                key = (s, isnone)
                if key not in seen:
                    seen.add(key)
                    st.append(key)
        return True

    def reaches(self, a: N, b: N, avoid: Iterable[N] = ()) -> bool:
        block = set(avoid)
        seen = {a}
        st = [a]
        while st:
            n = st.pop()
            for s in n.succ:
                if s is b:
                    return True
                if s not in seen and s not in block:
                    seen.add(s)
                    st.append(s)
        return False


def _inside(node: ast.AST, body: list[ast.stmt]) -> bool:
    cur: ast.AST | None = node
    while cur is not None:
        if any(cur is b for b in body):
            return True
        cur = parent_of(cur)
    return False


def range_facts(loop: ast.For) -> list[tuple[ast.expr, bool]]:
    """Inside the body of `for v in range(lo, hi[, +-c])` (v not re-bound in the body):
    lo <= v < hi, resp. hi < v <= lo - what the test of the equivalent `while` loop says."""
    it = loop.iter
    if not (isinstance(loop.target, ast.Name) and isinstance(it, ast.Call) and isinstance(it.func, ast.Name) and it.func.id == "range" and not it.keywords and 1 <= len(it.args) <= 3):
        return []
    v = loop.target.id
    for b in loop.body:
        for x in ast.walk(b):
            if isinstance(x, ast.Name) and x.id == v and isinstance(x.ctx, (ast.Store, ast.Del)):
                return []
    a = it.args
    lo: ast.expr = ast.Constant(value=0) if len(a) == 1 else a[0]
    hi: ast.expr = a[0] if len(a) == 1 else a[1]
    step = 1
    if len(a) == 3:
        st = a[2]
        if isinstance(st, ast.UnaryOp) and isinstance(st.op, ast.USub) and isinstance(st.operand, ast.Constant) and isinstance(st.operand.value, int):
            step = -st.operand.value
        elif isinstance(st, ast.Constant) and isinstance(st.value, int):
            step = st.value
        else:
            return []
    if step == 0:
        return []
    name = ast.Name(id=v, ctx=ast.Load())
    if step > 0:
        facts = [ast.Compare(left=lo, ops=[ast.LtE()], comparators=[name]), ast.Compare(left=name, ops=[ast.Lt()], comparators=[hi])]
    else:
        facts = [ast.Compare(left=name, ops=[ast.LtE()], comparators=[lo]), ast.Compare(left=hi, ops=[ast.Lt()], comparators=[name])]
    out = [(ast.fix_missing_locations(ast.copy_location(f, loop)), True) for f in facts]
    for f, _o in out:
        f._synthetic = True  # type: ignore[attr-defined]  (not a test of the source: table generators skip it)
    return out


def _assigns_name(stmt: ast.AST, name: str) -> bool | None:
    """None: does not assign `name`; True: assigns the constant None; False: assigns something else."""
    if isinstance(stmt, ast.Assign) and any(isinstance(t, ast.Name) and t.id == name for t in stmt.targets):
        return isinstance(stmt.value, ast.Constant) and stmt.value.value is None
    if isinstance(stmt, ast.AnnAssign) and isinstance(stmt.target, ast.Name) and stmt.target.id == name and stmt.value is not None:
        return isinstance(stmt.value, ast.Constant) and stmt.value.value is None
    if isinstance(stmt, (ast.AugAssign,)) and isinstance(stmt.target, ast.Name) and stmt.target.id == name:
        return False
    if isinstance(stmt, ast.NamedExpr) and isinstance(stmt.target, ast.Name) and stmt.target.id == name:
        return False
    return None


def _null_test(test: ast.expr, name: str) -> bool | None:
    """polarity p such that (test == p) implies `name` is not None; else None."""
    if isinstance(test, ast.Name) and test.id == name:
        return True
    if isinstance(test, ast.Compare) and len(test.ops) == 1 and isinstance(test.left, ast.Name) and test.left.id == name and isinstance(test.comparators[0], ast.Constant) and test.comparators[0].value is None:
        if isinstance(test.ops[0], ast.IsNot):
            return True
        if isinstance(test.ops[0], ast.Is):
            return False
    return None


def _const_truth(e: ast.expr) -> bool | None:
    if isinstance(e, ast.Constant):
        return bool(e.value)
    return None


def expr_guards(node: ast.AST, stop: ast.AST | None = None) -> list[tuple[ast.expr, bool]]:
    """Short-circuit context of `node` inside its enclosing expression: the
    atomic tests (with outcome) that must have been evaluated for control to
    reach `node` — BoolOp operands to the left, IfExp test, comprehension
    filters."""
    out: list[tuple[ast.expr, bool]] = []
    cur: ast.AST = node
    par = parent_of(cur)
    while par is not None and cur is not stop and not isinstance(par, (ast.stmt, ast.Lambda)):
        if isinstance(par, ast.BoolOp):
            k = next((i for i, v in enumerate(par.values) if v is cur), None)
            if k:
                for v in par.values[:k]:
                    out += atoms(v, isinstance(par.op, ast.And))
        elif isinstance(par, ast.IfExp):
            if cur is par.body:
                out += atoms(par.test, True)
            elif cur is par.orelse:
                out += atoms(par.test, False)
        elif isinstance(par, (ast.ListComp, ast.SetComp, ast.GeneratorExp, ast.DictComp)):
            if cur is getattr(par, "elt", None) or cur is getattr(par, "key", None) or cur is getattr(par, "value", None):
                for g in par.generators:
                    for c in g.ifs:
                        out += atoms(c, True)
        elif isinstance(par, ast.comprehension):
            if cur in par.ifs:
                k = par.ifs.index(cur)  # type: ignore[arg-type]
                for c in par.ifs[:k]:
                    out += atoms(c, True)
        cur = par
        par = parent_of(cur)
    return out


def atoms(test: ast.expr, outcome: bool) -> list[tuple[ast.expr, bool]]:
    """Atomic facts implied by `test` evaluating to `outcome` (conjunctive part only)."""
    if isinstance(test, ast.UnaryOp) and isinstance(test.op, ast.Not):
        return atoms(test.operand, not outcome)
    if isinstance(test, ast.BoolOp):
        if isinstance(test.op, ast.And) and outcome:
            return [a for v in test.values for a in atoms(v, True)]
        if isinstance(test.op, ast.Or) and not outcome:
            return [a for v in test.values for a in atoms(v, False)]
        return [(test, outcome)]
    return [(test, outcome)]
