"""E3: call graph with callees resolved through the mypy type map."""

from __future__ import annotations

import ast

from .core import Func, Module, Program, walk_own


class CallGraph:
    def __init__(self, prog: Program) -> None:
        self.prog = prog
        self.tm = prog.types
        # class fullname -> {method name -> Func}
        self.methods: dict[str, dict[str, Func]] = {}
        self.class_of_func: dict[str, str] = {}
        for key, (m, c) in prog.classes.items():
            full = f"{m.name}.{key.split('::')[1]}"
            table: dict[str, Func] = {}
            for f in prog.funcs.values():
                if f.cls is c and f.module is m and "." not in f.qual[len(key.split('::')[1]) + 1:]:
                    table.setdefault(f.name, f)
                    self.class_of_func[f.key] = full
            self.methods[full] = table
        self.imports: dict[str, dict[str, str]] = {}  # module rel -> local name -> "module:name" / "module"
        for m in prog.modules.values():
            self.imports[m.rel] = self._imports(m)
        self.edges: dict[str, set[str]] = {}
        self.unresolved: dict[str, list[str]] = {}
        for f in prog.funcs.values():
            self.edges[f.key] = set()
            for n in walk_own(f.node):
                if isinstance(n, ast.Call):
                    for g in self.resolve_call(f, n):
                        self.edges[f.key].add(g.key)
                elif isinstance(n, ast.Attribute) and isinstance(n.ctx, ast.Load):
                    for g in self.resolve_property(f, n):
                        self.edges[f.key].add(g.key)
            # nested functions defined here may be called back by callees (closures passed as arguments)
            for g in prog.funcs.values():
                if g.parent is f:
                    self.edges[f.key].add(g.key)

    def _imports(self, m: Module) -> dict[str, str]:
        out: dict[str, str] = {}
        pkg_parts = m.name.split(".")
        is_pkg = m.rel.endswith("__init__.py")
        base = pkg_parts if is_pkg else pkg_parts[:-1]
        for n in ast.walk(m.tree):
            if isinstance(n, ast.ImportFrom):
                if n.level:
                    b = base[: len(base) - (n.level - 1)]
                    mod = ".".join(b + ([n.module] if n.module else []))
                else:
                    mod = n.module or ""
                for a in n.names:
                    out[a.asname or a.name] = f"{mod}:{a.name}"
            elif isinstance(n, ast.Import):
                for a in n.names:
                    out[a.asname or a.name.split(".")[0]] = a.name
        return out

    def _module_rel(self, modname: str) -> str | None:
        for cand in (modname.replace(".", "/") + ".py", modname.replace(".", "/") + "/__init__.py"):
            if cand in self.prog.modules:
                return cand
        return None

    def lookup_name(self, m: Module, name: str, depth: int = 0) -> list[Func]:
        """Module-level function or class constructor named `name` as seen from module m."""
        if depth > 4:
            return []
        key = f"{m.rel}::{name}"
        if key in self.prog.funcs:
            return [self.prog.funcs[key]]
        if key in self.prog.classes:
            full = f"{m.name}.{name}"
            return self.method(full, "__init__")
        imp = self.imports.get(m.rel, {}).get(name)
        if imp and ":" in imp:
            mod, nm = imp.split(":")
            rel = self._module_rel(mod)
            if rel:
                return self.lookup_name(self.prog.modules[rel], nm, depth + 1)
            # `from . import node as pm_node` style: name is a module
        return []

    def method(self, cls_full: str, name: str, with_overrides: bool = False) -> list[Func]:
        out: list[Func] = []
        for c in self.tm.class_mro(cls_full) or [cls_full]:
            f = self.methods.get(c, {}).get(name)
            if f is not None:
                out.append(f)
                break
        if with_overrides:
            for sub in self.tm.subclasses_of(cls_full):
                f = self.methods.get(sub, {}).get(name)
                if f is not None and f not in out:
                    out.append(f)
        return out

    def resolve_call(self, f: Func, c: ast.Call) -> list[Func]:
        fn = c.func
        if isinstance(fn, ast.Name):
            # nested function in an enclosing scope
            g: Func | None = f
            while g is not None:
                key = f"{g.module.rel}::{g.qual}.{fn.id}"
                if key in self.prog.funcs:
                    return [self.prog.funcs[key]]
                g = g.parent
            if fn.id == "cls" and f.cls is not None:
                full = self.class_of_func.get(f.key)
                return self.method(full, "__init__", with_overrides=True) if full else []
            r = self.lookup_name(f.module, fn.id)
            if not r and fn.id not in __builtins__ if isinstance(__builtins__, dict) else False:
                self.unresolved.setdefault(f.key, []).append(fn.id)
            return r
        if isinstance(fn, ast.Attribute):
            if isinstance(fn.value, ast.Call) and isinstance(fn.value.func, ast.Name) and fn.value.func.id == "super" and f.cls is not None:
                full = self.class_of_func.get(f.key)
                if full:
                    for c_ in (self.tm.class_mro(full) or [])[1:]:
                        g2 = self.methods.get(c_, {}).get(fn.attr)
                        if g2:
                            return [g2]
                return []
            # module alias: pm_node.is_text / structure.join_point
            if isinstance(fn.value, ast.Name) and fn.value.id == "cls" and f.cls is not None:
                full = self.class_of_func.get(f.key)
                if full:
                    return self.method(full, fn.attr, with_overrides=True)
            if isinstance(fn.value, ast.Name):
                imp = self.imports.get(f.module.rel, {}).get(fn.value.id)
                if imp:
                    mod = imp.replace(":", ".") if ":" in imp else imp
                    rel = self._module_rel(mod) or self._module_rel(imp.split(":")[0] + "." + imp.split(":")[1] if ":" in imp else imp)
                    if rel:
                        return self.lookup_name(self.prog.modules[rel], fn.attr)
            out: list[Func] = []
            for t in self.tm.instance_names(f.module, fn.value):
                if t.startswith("type[") and t.endswith("]"):
                    for cls in t[5:-1].split(","):
                        out += self.method(cls, fn.attr, with_overrides=True)
                elif t.startswith("prosemirror."):
                    out += self.method(t, fn.attr, with_overrides=True)
            seen = []
            for g3 in out:
                if g3 not in seen:
                    seen.append(g3)
            if not seen:
                self.unresolved.setdefault(f.key, []).append(fn.attr)
            return seen
        return []

    def resolve_property(self, f: Func, a: ast.Attribute) -> list[Func]:
        out = []
        for t in self.tm.instance_names(f.module, a.value):
            if t.startswith("prosemirror."):
                for g in self.method(t, a.attr, with_overrides=True):
                    if any("property" in ast.unparse(d) for d in getattr(g.node, "decorator_list", [])):
                        out.append(g)
        return out

    def reachable(self, roots: list[str]) -> set[str]:
        seen = set(roots)
        st = list(roots)
        while st:
            k = st.pop()
            for n in self.edges.get(k, ()):
                if n not in seen:
                    seen.add(n)
                    st.append(n)
        return seen


_cache: dict[int, CallGraph] = {}


def callgraph(prog: Program) -> CallGraph:
    if id(prog) not in _cache:
        _cache[id(prog)] = CallGraph(prog)
    return _cache[id(prog)]
