"""Generic gate engine (rule family RG): "construct X is evaluated only when
facts G hold", decided by dominance on condition edges of the CFG plus the
short-circuit context inside expressions.  Facts are canonical strings with
single-assignment locals resolved to their defining expressions.
"""

from __future__ import annotations

import ast
import re
from dataclasses import dataclass
from typing import Callable, Iterable

from .cfg import CFG
from .core import AnalysisError, Func, Program, Report, parent_of, src, walk_own
from .norm import Resolver, fact_set


def inline_helper(prog: Program, module_rel: str, e: ast.expr) -> ast.expr | None:
    """`helper(a, b)` where helper is a module-level function of the same module
    whose body is a single `return <expr>`: the returned expression with the
    arguments substituted (a predicate extracted into a private helper still
    establishes the facts it tests)."""
    from .norm import clone

    class T(ast.NodeTransformer):
        def __init__(self) -> None:
            self.changed = False

        def visit_Call(self, node: ast.Call) -> ast.AST:
            self.generic_visit(node)
            if isinstance(node.func, ast.Name) and not node.keywords:
                key = f"{module_rel}::{node.func.id}"
                if prog.has_func(key):
                    f = prog.func(key)
                    body = [s for s in f.node.body if not (isinstance(s, ast.Expr) and isinstance(s.value, ast.Constant))]
                    params = f.params()
                    if len(body) == 1 and isinstance(body[0], ast.Return) and body[0].value is not None and len(params) == len(node.args):
                        mapping = dict(zip(params, node.args))

                        class S(ast.NodeTransformer):
                            def visit_Name(self, n: ast.Name) -> ast.AST:
                                return clone(mapping[n.id]) if n.id in mapping else n

                        self.changed = True
                        rv = body[0].value
                        if isinstance(rv, ast.Call) and isinstance(rv.func, ast.Name) and rv.func.id == "bool" and len(rv.args) == 1 and not rv.keywords:
                            rv = rv.args[0]  # `return bool(<test>)`: the test itself
                        return S().visit(clone(rv))
            return node

    t = T()
    out = t.visit(clone(e))
    return out if t.changed else None


class FnView:
    """Per-function analysis bundle (CFG, resolver), cached on the program."""

    def __init__(self, prog: Program, fn: Func, use_types: bool = False) -> None:
        self.prog = prog
        self.fn = fn
        noreturn: Callable[[ast.Call], bool] = _syntactic_noreturn
        self.cfg = CFG(fn.node, noreturn)
        self.res = Resolver(fn.node)
        from .norm import assigned_names

        self.locals = assigned_names([fn.node]) - set(fn.params()) - {fn.name}

    def guards(self, node: ast.AST, resolve: bool = True) -> set[str]:
        g = self.cfg.guards_at(node)
        g = g + [(h, o) for a, o in g for h in [inline_helper(self.prog, self.fn.module.rel, a)] if h is not None]
        if resolve:
            out = fact_set(g)
            for d in (1, 2, 3, 4):
                out |= fact_set(g, self.res.src_at(d))
            flagged = [(self.res.expr(a, d), o) for a, o in g for d in (1, 2) if isinstance(a, ast.expr) and any(isinstance(x, ast.Name) and x.id in self.res.defs for x in ast.walk(a))]
            if flagged:
                out |= fact_set(flagged)
            return out
        return fact_set(g)

    def rsrc(self, e: ast.expr) -> str:
        return self.res.src(e)

    def find(self, pred: Callable[[ast.AST], bool]) -> list[ast.AST]:
        body = ast.Module(body=list(self.fn.node.body), type_ignores=[])  # statements only: not the signature
        return sorted((n for n in walk_own(body) if pred(n)), key=lambda n: (getattr(n, "lineno", 0), getattr(n, "col_offset", 0)))

    def calls(self, name_re: str) -> list[ast.Call]:
        rx = re.compile(name_re)
        return [n for n in self.find(lambda n: isinstance(n, ast.Call)) if rx.fullmatch(src(n.func))]  # type: ignore[union-attr]



_STMT_KINDS = (ast.Assign, ast.AnnAssign, ast.AugAssign, ast.Expr, ast.Return, ast.Raise, ast.Break, ast.Continue, ast.Delete, ast.Assert)


def parent_stmt(e: ast.AST) -> ast.AST | None:
    cur: ast.AST | None = e
    while cur is not None and not isinstance(cur, ast.stmt):
        cur = parent_of(cur)
    return cur


def local_move_ok(v: "FnView", st: ast.AST, was: str, now: str) -> bool:
    """A plain assignment to one local (no call in it) moved *towards its uses*: same loops, same
    undominated exits, every reviewed guard kept, and each added guard also holds wherever the value
    it assigns may be read - in the cases in which it no longer runs, nothing reads what it would have
    stored."""
    if not (isinstance(st, (ast.Assign, ast.AnnAssign)) and getattr(st, "value", None) is not None):
        return False
    tg = st.targets if isinstance(st, ast.Assign) else [st.target]
    if len(tg) != 1 or not isinstance(tg[0], ast.Name) or any(isinstance(x, (ast.Call, ast.NamedExpr, ast.Await, ast.Yield)) for x in ast.walk(st)):
        return False
    name = tg[0].id
    try:
        g0, l0, p0 = was.split(" | ")
        g1, l1, p1 = now.split(" | ")
    except ValueError:
        return False
    if l0 != l1 or p0 != p1:
        return False
    old = set(filter(None, g0[len("when "):].split(" ∧ ")))
    new = set(filter(None, g1[len("when "):].split(" ∧ ")))
    if not old <= new:
        return False
    added = new - old
    # a closure reading the name could run anywhere
    for f in ast.walk(v.fn.node):
        if f is not v.fn.node and isinstance(f, (ast.FunctionDef, ast.AsyncFunctionDef, ast.Lambda)) and any(isinstance(x, ast.Name) and x.id == name for x in ast.walk(f)):
            return False
    IN = v.cfg.reaching_defs()
    for n in v.cfg.nodes:
        x = n.node
        if x is None or x is st or isinstance(x, (ast.FunctionDef, ast.AsyncFunctionDef, ast.ClassDef)):
            continue
        if st not in IN.get(n, {}).get(name, ()):
            continue
        reads = [y for y in ast.walk(x) if isinstance(y, ast.Name) and y.id == name and isinstance(y.ctx, ast.Load)] if not isinstance(x, (ast.If, ast.While, ast.For, ast.AsyncFor, ast.Try, ast.With)) else []
        if isinstance(x, (ast.For, ast.AsyncFor)):
            reads = [y for y in ast.walk(x.iter) if isinstance(y, ast.Name) and y.id == name]
        if not reads:
            continue
        have = fact_set(v.cfg.guards_at(reads[0]))
        if not added <= have:
            return False
    return True


def def_uses(v: "FnView") -> dict[str, list[int]]:
    """For every plain assignment to one local name (keyed by its normalised text, one entry per
    occurrence): the number of CFG nodes that may read the value it stores (reaching definitions)."""
    IN = v.cfg.reaching_defs()
    out: dict[str, list[int]] = {}
    for st in walk_own(v.fn.node):
        if isinstance(st, ast.Assign) and len(st.targets) == 1 and isinstance(st.targets[0], ast.Name):
            name = st.targets[0].id
        elif isinstance(st, (ast.AnnAssign, ast.AugAssign)) and isinstance(st.target, ast.Name) and getattr(st, "value", None) is not None:
            name = st.target.id
        else:
            continue
        k = 0
        for n in v.cfg.nodes:
            x = n.node
            if x is None or isinstance(x, (ast.FunctionDef, ast.AsyncFunctionDef, ast.ClassDef, ast.If, ast.While, ast.Try, ast.With)):
                continue
            if st not in IN.get(n, {}).get(name, ()):
                continue
            scope = x.iter if isinstance(x, (ast.For, ast.AsyncFor)) else x
            if any(isinstance(y, ast.Name) and y.id == name and isinstance(y.ctx, ast.Load) for y in ast.walk(scope)) or (isinstance(x, ast.AugAssign) and isinstance(x.target, ast.Name) and x.target.id == name):
                k += 1
        # a name shared with an enclosing / global scope is read elsewhere
        if any(isinstance(y, (ast.Nonlocal, ast.Global)) and name in y.names for y in ast.walk(v.fn.node)):
            k += 1
        # a closure that reads the name may run at any time
        for f in ast.walk(v.fn.node):
            if f is not v.fn.node and isinstance(f, (ast.FunctionDef, ast.AsyncFunctionDef, ast.Lambda)) and any(isinstance(y, ast.Name) and y.id == name for y in ast.walk(f)):
                k += 1
        out.setdefault(" ".join(src(st).split()), []).append(k)
    return {k_: sorted(x) for k_, x in out.items()}


def stmt_contexts(v: "FnView") -> dict[str, list[str]]:
    """Control context of every simple statement of the function, keyed by its normalised text: the
    atomic test outcomes that dominate it, the headers of the loops around it, and the exits of the
    function it does not dominate (the exits that can be taken without it having run).  Two versions of
    a function with the same statements and tests agree on these exactly when every statement is still
    performed in the same cases, whatever the indentation / else-after-return layout."""
    fn = v.fn.node
    own = [st for st in walk_own(fn) if isinstance(st, _STMT_KINDS) and not (isinstance(st, ast.Expr) and isinstance(st.value, ast.Constant))]
    exits = [st for st in own if isinstance(st, (ast.Return, ast.Raise, ast.Break, ast.Continue))]
    dom = v.cfg.dominators()
    out: dict[str, list[str]] = {}
    for st in own:
        n = v.cfg.node_for(st)
        if n is None or n not in dom:
            continue
        loops = []
        cur = parent_of(st)
        while cur is not None and cur is not fn:
            if isinstance(cur, (ast.For, ast.AsyncFor)):
                loops.append("for " + " ".join(src(cur.target).split()) + " in " + " ".join(src(cur.iter).split()))
            elif isinstance(cur, ast.While):
                loops.append("while " + " ".join(src(cur.test).split()))
            cur = parent_of(cur)
        pre = []
        # a plain assignment to locals (no call in it) that an exit of the *function* does not mention
        # has no effect on that exit: moving it across such a return / raise changes nothing
        tg = st.targets if isinstance(st, ast.Assign) else ([st.target] if isinstance(st, (ast.AnnAssign, ast.AugAssign)) else [])
        local_only = bool(tg) and all(isinstance(t, ast.Name) for t in tg) and not any(isinstance(x, (ast.Call, ast.NamedExpr, ast.Await, ast.Yield)) for x in ast.walk(st))
        assigned = {t.id for t in tg if isinstance(t, ast.Name)}
        for e in exits:
            if e is st:
                continue
            if local_only and isinstance(e, (ast.Return, ast.Raise)) and not any(isinstance(x, ast.Name) and x.id in assigned for x in ast.walk(e)):
                continue
            if isinstance(e, (ast.Break, ast.Continue)):
                # the exit of a loop the statement is not in ends that loop, not the cases in which the
                # statement runs (being before or after a whole loop is order, not case)
                lp = parent_of(e)
                while lp is not None and not isinstance(lp, (ast.For, ast.AsyncFor, ast.While)):
                    lp = parent_of(lp)
                if lp is not None and not any(y is st for y in ast.walk(lp)):
                    continue
            en = v.cfg.node_for(e)
            if en is None or en not in dom:
                continue
            if n not in dom[en]:
                pre.append(" ".join(src(e).split()))
        # the exit condition of a `while` that is over says nothing about the cases in which a later
        # statement runs: every run that gets past the loop has it
        done = {id(x) for w in walk_own(fn) if isinstance(w, ast.While) and not any(y is st for y in ast.walk(w)) for x in ast.walk(w.test)}
        # what an `assert` states is presumed: it is no case distinction of the function
        done |= {id(x) for w in walk_own(fn) if isinstance(w, ast.Assert) for x in ast.walk(w.test)}
        g = [(a, o) for a, o in v.cfg.guards_at(st) if not isinstance(a, ast.Constant) and not ((o is False or isinstance(parent_stmt(a), ast.Assert)) and id(a) in done)]
        d = "when " + " ∧ ".join(sorted(fact_set(g))) + " | in " + " / ".join(loops) + " | not before " + " ; ".join(sorted(pre))
        out.setdefault(" ".join(src(st).split()), []).append(d)
    return {k: sorted(x) for k, x in out.items()}


def _syntactic_noreturn(c: ast.Call) -> bool:
    # `stream.err(...)` is the only NoReturn helper of the package (TokenStream.err);
    # its NoReturn annotation is verified separately by rule RG8.
    return isinstance(c.func, ast.Attribute) and c.func.attr == "err" and isinstance(c.func.value, ast.Name) and c.func.value.id == "stream"


_views: dict[tuple[int, str], FnView] = {}


def view(prog: Program, key: str) -> FnView:
    k = (id(prog), key)
    if k not in _views:
        _views[k] = FnView(prog, prog.func(key))
    return _views[k]


_IDENT = re.compile(r"(?<![\w.'\"])([A-Za-z_]\w*)(?![\w(])")


def alpha(fact: str, locals_: set[str]) -> str:
    """Rename the function's local variables in a fact to $1, $2 .. by order of
    first occurrence, so that a renamed local does not change the fact."""
    order: dict[str, str] = {}

    def rep(m: re.Match) -> str:
        nm = m.group(1)
        if nm in locals_:
            order.setdefault(nm, f"${len(order) + 1}")
            return order[nm]
        return nm

    elems = [x for x in locals_ if "[" in x]
    if elems:
        # a vanished element read (`marks[i]`) is one token: first pass gives it a private marker
        for k, x in enumerate(sorted(elems)):
            fact = fact.replace(x, f"__elem{k}__")
        locals_ = set(locals_) | {f"__elem{k}__" for k in range(len(elems))}
    return _IDENT.sub(rep, fact)


_KW = {"None", "True", "False", "not", "in", "is", "and", "or", "if", "else", "lambda", "for", "raw", "re"}


def fn_names(v: "FnView") -> set[str]:
    c = getattr(v, "_names_cache", None)
    if c is None:
        c = {n.id for n in ast.walk(v.fn.node) if isinstance(n, ast.Name)} | {a.arg for a in ast.walk(v.fn.node) if isinstance(a, ast.arg)}
        v._names_cache = c  # type: ignore[attr-defined]
    return c


_REVIEWED: dict | None = None


def _reviewed(v: "FnView") -> dict | None:
    global _REVIEWED
    if _REVIEWED is None:
        import json
        import os

        pth = os.path.join(os.path.dirname(os.path.dirname(os.path.abspath(__file__))), "selftest", "reviewed_shape.json")
        _REVIEWED = json.load(open(pth)) if os.path.exists(pth) else {}
    return _REVIEWED.get(v.fn.key)


def reshaped(prog: Program, key: str) -> bool:
    """The control skeleton of the function differs from the reviewed tree's (norm.shape_of): the
    reviewed instances of the tables are not comparable statement by statement."""
    global _REVIEWED
    if _REVIEWED is None:
        import json
        import os

        pth = os.path.join(os.path.dirname(os.path.dirname(os.path.abspath(__file__))), "selftest", "reviewed_shape.json")
        _REVIEWED = json.load(open(pth)) if os.path.exists(pth) else {}
    rv = _REVIEWED.get(key)
    if rv is None or "shape" not in rv or key not in prog.funcs:
        return False
    from .norm import shape_of

    return shape_of(prog.funcs[key].node) != rv["shape"]


def new_helpers(v: "FnView") -> list:
    """Functions of the same module that the function calls by plain name and that the reviewed
    tree did not have (an extracted helper).  Their statements belong to the reviewed function."""
    global _REVIEWED
    _reviewed(v)
    out = []
    if not _REVIEWED:
        return out
    for c in walk_own(v.fn.node):
        if isinstance(c, ast.Call) and isinstance(c.func, ast.Name):
            key = f"{v.fn.module.rel}::{c.func.id}"
            if key not in _REVIEWED and key in v.prog.funcs:
                f = v.prog.funcs[key]
                if f not in out:
                    out.append(f)
    return out


def new_names(v: "FnView") -> set[str]:
    """Locals (and parameters) of the function that the reviewed tree's version of it did not
    contain (selftest/reviewed_shape.json).  Only ever used to decline a judgement."""
    rv = _reviewed(v)
    if rv is None:
        return set()
    return (set(v.locals) | set(v.fn.params())) - set(rv["names"])


def returns_reshaped(v: "FnView") -> bool:
    """Some return of the reviewed function is gone (by text): the function's exits were
    restructured, so an additional constant answer cannot be attributed to a reviewed guard set.
    When every reviewed return is still there, an extra constant answer is new behaviour and is judged."""
    rv = _reviewed(v)
    if rv is None:
        return True
    now = [" ".join(src(r.value).split()) if r.value is not None else "None" for r in walk_own(v.fn.node) if isinstance(r, ast.Return)]
    left = list(now)
    for t in rv["returns"]:
        if t in left:
            left.remove(t)
        else:
            return True
    return False


def _assigned(v: "FnView") -> set[str]:
    c = getattr(v, "_assigned_cache", None)
    if c is None:
        from .norm import assigned_names

        c = assigned_names([v.fn.node])
        v._assigned_cache = c  # type: ignore[attr-defined]
    return c


def expand_vanished(v: "FnView", fact: str) -> str:
    """A table fact with every identifier the function no longer contains replaced by the
    expression it was defined as in the reviewed function (a local that was inlined)."""
    rv = _reviewed(v)
    if rv is None or not rv.get("defs") or fact.startswith(("re:", "exhausted(")):
        return fact
    raw = fact.startswith("raw:")
    body = fact[4:] if raw else fact
    done: set[str] = set()
    for _ in range(3):
        gone = [g for g in vanished(v, body) if g in rv["defs"] and g not in done]
        # a parameter the reviewed function defaulted in place (`if p is None: p = A`) and the current one
        # no longer assigns: the reviewed facts speak of the defaulted value
        try:
            ids = {m.group(1) for m in _IDENT.finditer(re.sub(r"'[^']*'|\"[^\"]*\"", "''", body))}
        except re.error:
            ids = set()
        gone += [g for g in ids if g in rv["defs"] and g not in done and g in v.fn.params() and g not in _assigned(v) and g not in v.res.defs and g not in gone and rv["defs"][g] not in body]  # (idempotent: already expanded)
        done |= set(gone)
        if not gone:
            break
        try:
            tree = ast.parse(body, mode="eval")
        except SyntaxError:
            return fact

        class T(ast.NodeTransformer):
            def visit_Name(self, node: ast.Name) -> ast.AST:
                if node.id in gone:
                    return ast.parse(rv["defs"][node.id], mode="eval").body
                return node

        body = " ".join(ast.unparse(ast.fix_missing_locations(T().visit(tree))).split())
    return ("raw:" if raw else "") + body


def vanished(v: "FnView", fact: str) -> set[str]:
    """Identifiers a table fact mentions that the function no longer contains: a renamed or
    removed local.  Such a fact is compared modulo renaming, and when it still does not hold the
    entry is unrecognised rather than violated."""
    if fact.startswith(("re:", "exhausted(")):
        return set()
    body = fact[4:] if fact.startswith("raw:") else fact
    body = re.sub(r"'[^']*'|\"[^\"]*\"", "''", body)
    gone = {m.group(1) for m in _IDENT.finditer(body) if m.group(1) not in _KW} - fn_names(v)
    # element reads `xs[i]` are vocabulary too: a loop rewritten to iterate over the elements
    # directly no longer contains them
    subs = getattr(v, "_subs_cache", None)
    if subs is None:
        subs = {"".join(src(n).split()) for root in [v.fn.node, *v.res.defs.values()] for n in ast.walk(root) if isinstance(n, ast.Subscript) and isinstance(n.value, ast.Name) and isinstance(n.slice, (ast.Name, ast.Constant))}
        v._subs_cache = subs  # type: ignore[attr-defined]
    rv = _reviewed(v)
    if rv is not None and "locals" in rv:
        gone &= set(rv["locals"])  # only what was a local / parameter of the reviewed function can have been renamed
    for m in re.finditer(r"(?<![\w.])([A-Za-z_]\w*)\[(\w+)\]", body):
        if "".join(m.group(0).split()) not in subs and m.group(1) in fn_names(v):
            gone.add(m.group(0))
    return gone


def has_fact(facts: Iterable[str], pattern: str) -> bool:
    rx = re.compile(pattern)
    return any(rx.fullmatch(f) for f in facts)


def _resym(fact: str) -> str:
    """A table fact about a symmetric method call in the canonical operand order of norm.facts."""
    m = re.fullmatch(r"(truthy|falsy)\((.*)\)", fact)
    if not m:
        return fact
    from .norm import SYMMETRIC_METHODS, facts as _nf

    try:
        e = ast.parse(m.group(2), mode="eval").body
    except SyntaxError:
        return fact
    if isinstance(e, ast.Call) and isinstance(e.func, ast.Attribute) and e.func.attr in SYMMETRIC_METHODS and len(e.args) == 1:
        fs = _nf(e, m.group(1) == "truthy")
        if len(fs) == 1:
            return fs[0]
    return fact


def need_facts(need: str) -> list[str]:
    """A need is a Python condition (canonicalised like a guard) or `re:<regex>`."""
    if need.startswith("re:") or need.startswith("exhausted("):
        return [need]
    if need.startswith("raw:"):
        return ["raw:" + _resym(need[4:])]
    from .norm import facts as _facts

    e = ast.parse(need, mode="eval").body
    return _facts(e, True)


def holds(facts: set[str], need: str) -> bool:
    for nf in need_facts(need):
        if nf.startswith("re:"):
            if not has_fact(facts, nf[3:]):
                return False
        elif nf not in facts:
            return False
    return True


def _node_facts(v: FnView) -> list:
    """[(cfg node, set of facts its outcome establishes)] - computed once per function."""
    cached = getattr(v, "_nf_cache", None)
    if cached is not None:
        return cached
    from .norm import facts as _facts

    out = []
    from .cfg import range_facts

    for n in v.cfg.nodes:
        if n.kind == "for-next" and isinstance(n.node, (ast.For, ast.AsyncFor)):
            fs = set()
            for e, o in range_facts(n.node):
                fs |= set(_facts(e, o))
                for d in (1, 2, 8):
                    fs |= set(_facts(e, o, v.res.src_at(d)))
            if fs:
                out.append((n, fs, {alpha(f, v.locals) for f in fs}))
            continue
        if n.kind in ("T", "F") and isinstance(n.node, ast.expr):
            fs = set(_facts(n.node, n.kind == "T"))
            for d in (1, 2, 3, 4, 8):
                fs |= set(_facts(n.node, n.kind == "T", v.res.src_at(d)))
            if any(isinstance(x, ast.Name) and x.id in v.res.defs for x in ast.walk(n.node)):
                # a flag local (`match_all = name == "_"`): the facts of its defining expression
                for d in (1, 2):
                    fs |= set(_facts(v.res.expr(n.node, d), n.kind == "T"))
            h = inline_helper(v.prog, v.fn.module.rel, n.node)
            if h is not None:
                fs |= set(_facts(h, n.kind == "T"))
            rexp = reach_expr(v, n.cond or n, n.node)
            if rexp is not None:
                # a name with several assignments of which exactly one reaches this test
                fs |= set(_facts(rexp, n.kind == "T"))
                for d in (1, 2, 8):
                    fs |= set(_facts(rexp, n.kind == "T", v.res.src_at(d)))
            if any(isinstance(x, ast.NamedExpr) for x in ast.walk(n.node)):
                # `(x := e)` tests e: the facts of the expression with the binding replaced by its value
                from .norm import clone

                class W(ast.NodeTransformer):
                    def visit_NamedExpr(self, node: ast.NamedExpr) -> ast.AST:
                        return self.visit(node.value)

                we = ast.fix_missing_locations(W().visit(clone(n.node)))
                fs |= set(_facts(we, n.kind == "T"))
                for d in (1, 2, 3):
                    fs |= set(_facts(we, n.kind == "T", v.res.src_at(d)))
            out.append((n, fs, {alpha(f, v.locals) for f in fs}))
    v._nf_cache = out  # type: ignore[attr-defined]
    return out


def reach_expr(v: FnView, at, e: ast.expr, depth: int = 2, aug: bool = False) -> ast.expr | None:
    """`e` with every name that the flow-insensitive resolver leaves alone (several assignments)
    but of which exactly one simple assignment `x = d` reaches the CFG node `at`, replaced by `d`
    (itself resolved at the assignment).  None when nothing was replaced."""
    from .norm import clone

    rd = v.cfg.reaching_defs()
    here = rd.get(at)
    if here is None:
        return None
    changed = False

    def subst(x: ast.expr, where, dep: int) -> ast.expr:
        nonlocal changed
        defs_here = rd.get(where, {})

        class T(ast.NodeTransformer):
            def visit_Name(self, node: ast.Name) -> ast.AST:
                nonlocal changed
                if isinstance(node.ctx, ast.Load) and node.id not in v.res.defs:
                    ds = defs_here.get(node.id)
                    if ds is not None and len(ds) == 1:
                        d = next(iter(ds))
                        if isinstance(d, ast.AugAssign) and dep > 0 and aug:
                            dn = v.cfg.stmt_node.get(id(d))
                            if dn is not None and isinstance(d.op, (ast.Add, ast.Sub)):
                                prev = rd.get(dn, {}).get(node.id)
                                # the incoming value must itself be a single definition other than this statement
                                if prev is not None and len(prev) == 1 and next(iter(prev)) is not d:
                                    changed = True
                                    inner = subst(ast.Name(id=node.id, ctx=ast.Load()), dn, dep - 1)
                                    return ast.BinOp(left=inner, op=d.op, right=subst(clone(d.value), dn, dep - 1))
                            return node
                        if isinstance(d, (ast.Assign, ast.AnnAssign)) and d.value is not None and dep > 0:
                            dn = v.cfg.stmt_node.get(id(d))
                            # a definition in terms of the name itself (`x = x.first_child`) is not a value
                            selfref = any(isinstance(y, ast.Name) and y.id == node.id for y in ast.walk(d.value))
                            if dn is not None and not selfref:
                                changed = True
                                return subst(clone(d.value), dn, dep - 1)
                            if dn is not None and isinstance(d.value, ast.BoolOp) and any(isinstance(y, ast.Name) and y.id == node.id for y in d.value.values):
                                # the accumulating flag `x = x or E`: where the new x is falsy, the old x and E
                                # are; where it is truthy, one of them is - the old and the new x read alike
                                changed = True
                                return clone(d.value)
                return node

            def visit_Lambda(self, node: ast.Lambda) -> ast.AST:
                return node

        return T().visit(clone(x))

    out = subst(e, at, depth)
    return ast.fix_missing_locations(out) if changed else None


def _node_disjunctions(v: FnView) -> list:
    """[(cfg node, frozenset of facts)]: the outcome of the node establishes the *disjunction* of the
    facts.  `x != (a if c else b)` (usually after a local `edge = a if c else b` was resolved)
    establishes `x != a or x != b`: it discharges a need whose alternatives cover both."""
    cached = getattr(v, "_nd_cache", None)
    if cached is not None:
        return cached
    from .norm import clone, facts as _facts

    out = []
    for n in v.cfg.nodes:
        if n.kind not in ("T", "F") or not isinstance(n.node, ast.expr):
            continue
        for d in (0, 1, 2, 3):
            e = v.res.expr(n.node, d) if d else n.node
            neg = False
            while isinstance(e, ast.UnaryOp) and isinstance(e.op, ast.Not):
                e, neg = e.operand, not neg
            if not (isinstance(e, ast.Compare) and len(e.ops) == 1):
                continue
            for side in ("left", "right"):
                x = e.left if side == "left" else e.comparators[0]
                if isinstance(x, ast.IfExp):
                    arms = []
                    for arm in (x.body, x.orelse):
                        c = clone(e)
                        if side == "left":
                            c.left = clone(arm)
                        else:
                            c.comparators = [clone(arm)]
                        fs = _facts(ast.fix_missing_locations(c), (n.kind == "T") != neg)
                        if len(fs) == 1:
                            arms.append(fs[0])
                    if len(arms) == 2:
                        out.append((n, [frozenset([arms[0]]), frozenset([arms[1]])]))
    # a predicate helper whose (inlined) body is a disjunction: its truth establishes the disjunction
    for n in v.cfg.nodes:
        if n.kind not in ("T", "F") or not isinstance(n.node, ast.expr):
            continue
        h = inline_helper(v.prog, v.fn.module.rel, n.node)
        if h is None:
            continue
        neg = False
        while isinstance(h, ast.UnaryOp) and isinstance(h.op, ast.Not):
            h, neg = h.operand, not neg
        outcome = (n.kind == "T") != neg
        if isinstance(h, ast.BoolOp) and ((isinstance(h.op, ast.Or) and outcome) or (isinstance(h.op, ast.And) and not outcome)):
            conj = [frozenset(_facts(x, outcome)) for x in h.values]
            if all(conj):
                out.append((n, conj))
    # a flag local assigned in several branches (`if c: ok = A else: ok = B`, then `if ok:`): its test
    # establishes, for each definition, the facts of the defining expression and of the branch it sits in
    from .norm import fact_set

    binds: dict[str, list] = {}
    for a in walk_own(v.fn.node):
        if isinstance(a, ast.Assign) and len(a.targets) == 1 and isinstance(a.targets[0], ast.Name):
            binds.setdefault(a.targets[0].id, []).append(a)
        elif isinstance(a, (ast.AugAssign, ast.AnnAssign, ast.NamedExpr, ast.For, ast.comprehension)):
            for x in ast.walk(a.target):
                if isinstance(x, ast.Name):
                    binds.setdefault(x.id, []).append(None)
        elif isinstance(a, ast.Assign):
            for t in a.targets:
                for x in ast.walk(t):
                    if isinstance(x, ast.Name):
                        binds.setdefault(x.id, []).append(None)
    for n in v.cfg.nodes:
        if n.kind not in ("T", "F") or not isinstance(n.node, ast.expr):
            continue
        e, neg = n.node, False
        while isinstance(e, ast.UnaryOp) and isinstance(e.op, ast.Not):
            e, neg = e.operand, not neg
        if isinstance(e, ast.Name) and e.id not in v.fn.params() and len(binds.get(e.id, [])) >= 2 and all(b is not None for b in binds[e.id]):
            conj = []
            for b in binds[e.id]:
                fs = set(_facts(b.value, (n.kind == "T") != neg)) | fact_set(v.cfg.guards_at(b))
                for d in (1, 2):
                    fs |= set(_facts(v.res.expr(b.value, d), (n.kind == "T") != neg))
                conj.append(frozenset(fs))
            out.append((n, conj))
    v._nd_cache = out  # type: ignore[attr-defined]
    return out


def full_fact(v: FnView, fact: str) -> str | None:
    """The fact with every single-assignment local of the *current* function replaced by its
    definition (the form every node fact also has at full depth): a need written with some locals
    resolved and others not is still found after a refactoring introduced or inlined locals."""
    if fact.startswith(("re:", "exhausted(")):
        return None
    raw = fact.startswith("raw:")
    body = fact[4:] if raw else fact
    try:
        tree = ast.parse(body, mode="eval").body
    except SyntaxError:
        return None
    if not any(isinstance(x, ast.Name) and x.id in v.res.defs for x in ast.walk(tree)):
        return None
    from .norm import facts as _nfacts

    rt = v.res.expr(tree, 8)
    # back into the canonical form the node facts have (operand order of comparisons, truthy/falsy wrappers)
    out = None
    if isinstance(rt, ast.Call) and isinstance(rt.func, ast.Name) and rt.func.id in ("truthy", "falsy") and len(rt.args) == 1:
        fs = _nfacts(rt.args[0], rt.func.id == "truthy")
        if len(fs) == 1:
            out = fs[0]
    elif isinstance(rt, (ast.Compare, ast.UnaryOp)):
        fs = _nfacts(rt, True)
        if len(fs) == 1:
            out = fs[0]
    if out is None:
        out = " ".join(src(rt).split())
    return ("raw:" if raw else "") + out


def _establishing(v: FnView, fact: str) -> list:
    """T/F nodes of the CFG whose outcome establishes `fact`."""
    ff = full_fact(v, expand_vanished(v, fact))
    if ff is not None and ff != fact:
        return _establishing1(v, fact) + [n for n in _establishing1(v, ff)]
    return _establishing1(v, fact)


def _establishing1(v: FnView, fact: str) -> list:
    out = []
    if fact.startswith("exhausted(") or fact.startswith("re:exhausted"):
        # a for loop ran to completion (no break / early return): its for-exit node
        for n in v.cfg.nodes:
            if n.kind == "for-exit" and isinstance(n.node, (ast.For, ast.AsyncFor)):
                f = "exhausted(" + " ".join(src(n.node.iter).split()) + ")"
                if (fact.startswith("re:") and re.fullmatch(fact[3:], f)) or f == fact:
                    out.append(n)
        return out
    fact = expand_vanished(v, fact)
    gone = vanished(v, fact)
    want = alpha(fact[4:], v.locals | gone) if fact.startswith("raw:") else (alpha(fact, v.locals | gone) if gone else None)
    for n, fs, afs in _node_facts(v):
        if fact.startswith("re:"):
            if has_fact(fs, fact[3:]):
                out.append(n)
        elif want is not None:
            if want in afs:
                out.append(n)
        elif fact in fs:
            out.append(n)
    return out


def need_holds(v: FnView, node: ast.AST, alts: list[str], raw: bool = False, nonnull: str | None = None) -> bool:
    """Every path from the function entry to `node` passes a condition edge
    that establishes one of the alternatives (or the short-circuit context of
    `node` inside its expression does)."""
    from .cfg import expr_guards
    from .norm import fact_set

    eg = expr_guards(node, stop=v.cfg._stop_for(node))
    local = fact_set(eg)
    for d in (1, 2, 3, 4, 8):
        local |= fact_set(eg, v.res.src_at(d))
    flagged = [(v.res.expr(a, d), o) for a, o in eg for d in (1, 2) if isinstance(a, ast.expr) and any(isinstance(x, ast.Name) and x.id in v.res.defs for x in ast.walk(a))]
    if flagged:
        local |= fact_set(flagged)
    # a local disjunctive guard (`not (A and B)`, `A or B`) discharges a need whose alternatives cover it
    alt_facts = set()
    for a in alts:
        fa = [a] if raw else need_facts(a)
        if len(fa) == 1:
            alt_facts.add(fa[0])
    from .norm import facts as _nf

    for atom, outcome in eg:
        if isinstance(atom, ast.BoolOp) and ((isinstance(atom.op, ast.And) and not outcome) or (isinstance(atom.op, ast.Or) and outcome)):
            for sub in (src, v.res.src_at(1), v.res.src_at(2)):
                disj = [_nf(x, outcome, sub) for x in atom.values]
                if all(len(d) == 1 and d[0] in alt_facts for d in disj):
                    return True
    through = []
    # `two = f(one) if one else None` (the port's `two = None; if one: two = ...` idiom, in the current
    # or the reviewed function): where `one` is falsy, `two` is None - so `not one` establishes `not two`
    for f in sorted(alt_facts):
        m = re.fullmatch(r"(?:raw:)?(?:falsy\((\w+)\)|(\w+) is None)", f)
        if not m:
            continue
        nm = m.group(1) or m.group(2)
        cands = [v.res.defs.get(nm)]
        rv = _reviewed(v)
        if rv is not None and nm in rv.get("defs", {}):
            try:
                cands.append(ast.parse(rv["defs"][nm], mode="eval").body)
            except SyntaxError:
                pass
        for d in cands:
            if not (isinstance(d, ast.IfExp) and isinstance(d.orelse, ast.Constant) and d.orelse.value is None):
                continue
            neg = _nf(d.test, False)
            if len(neg) == 1:
                if neg[0] in local:
                    return True
                through += _establishing(v, neg[0])
    for a in alts:
        fs = [expand_vanished(v, f) for f in ([a] if raw else need_facts(a))]
        if len(fs) != 1:
            if len(alts) != 1:
                raise AnalysisError(f"gate table: a compound need `{a}` cannot be an alternative")
            return all(need_holds(v, node, [f], raw=True, nonnull=nonnull) for f in fs)
        if fs[0].startswith("re:"):
            if has_fact(local, fs[0][3:]):
                return True
        elif fs[0].startswith("raw:"):
            want = alpha(fs[0][4:], v.locals | vanished(v, fs[0]))
            if any(alpha(f, v.locals) == want for f in local):
                return True
        elif fs[0] in local or ((ff := full_fact(v, fs[0])) is not None and ff in local):
            return True
        elif (gone := vanished(v, fs[0])) and any(alpha(f, v.locals) == alpha(fs[0], v.locals | gone) for f in local):
            return True
        through += _establishing(v, fs[0])
    if alt_facts:
        through += [n for n, conj in _node_disjunctions(v) if all(c & alt_facts for c in conj)]
    tn = v.cfg.node_for(node)
    if tn is None:
        raise AnalysisError(f"no CFG node for `{src(node)[:60]}` in {v.fn.key}")
    from .cfg import _inside

    through = [x for x in through if x is not tn and not (x.kind == "for-next" and not _inside(node, x.node.body))]
    return bool(through) and v.cfg.must_pass(tn, through, nonnull)


def require(report: Report, rule: str, v: FnView, node: ast.AST, needs: list, what: str, why: str, nonnull: str | None = None) -> bool:
    """Obligation: `node` is evaluated only under every need (a list entry is a
    disjunction of alternatives, decided path-wise).  Returns True when it holds."""
    missing = []
    for p in needs:
        alts = [p] if isinstance(p, str) else list(p)
        if not need_holds(v, node, alts, nonnull=nonnull):
            missing.append(" | ".join(alts))
    construct = " ".join(src(node).split())[:120]
    if missing:
        gone = set()
        for p in needs:
            for a in ([p] if isinstance(p, str) else list(p)):
                for f in ([a] if a.startswith(("raw:", "re:", "exhausted(")) else need_facts(a)):
                    gone |= vanished(v, expand_vanished(v, f))
        if gone:
            raise AnalysisError(f"{rule}: {v.fn.key}: the guard of `{construct[:60]}` cannot be compared: the reviewed condition mentions {sorted(gone)}, which found 0 time(s) in the function now (renamed or restructured)")
        report.violate(
            rule,
            v.fn,
            node,
            f"{what}: {construct}",
            f"{why}; a path reaches it without establishing: {'; '.join(missing)}",
            witness=[f"facts that dominate this point: {sorted(v.guards(node, resolve=False))}"],
            what=f"{what} requires {needs}",
        )
        return False
    report.ob(rule, v.fn.key, f"{what} [{construct}] only under {needs}")
    return True


def need(nodes: list, rule: str, what: str, n: int = 1) -> list:
    if len(nodes) < n:
        raise AnalysisError(f"{rule}: anchor not found: {what} (found {len(nodes)}, need {n})")
    return nodes
