"""E0: loader, program index, findings, report / evidence writer.

Nothing in this package imports or executes `prosemirror`; the repository is
read as source text only.
"""

from __future__ import annotations

import ast
import hashlib
import json
import os
import sys
import time
from dataclasses import dataclass, field
from typing import Any, Iterator

VERIF = os.path.dirname(os.path.dirname(os.path.abspath(__file__)))
REPO = os.environ.get("PMVERIF_REPO", "/repo")
PKG = "prosemirror"


class AnalysisError(Exception):
    """The checker could not analyse what it must (exit 2, never a pass)."""


def src(node: ast.AST | None) -> str:
    if node is None:
        return "None"
    return ast.unparse(node)


@dataclass
class Module:
    rel: str  # e.g. prosemirror/model/node.py
    name: str  # dotted
    path: str
    source: str
    tree: ast.Module

    def line(self, n: int) -> str:
        lines = self.source.splitlines()
        return lines[n - 1] if 0 < n <= len(lines) else ""


@dataclass
class Func:
    module: Module
    qual: str  # "Class.method", "func", "outer.inner"
    node: ast.FunctionDef | ast.AsyncFunctionDef | ast.Lambda
    cls: ast.ClassDef | None
    parent: "Func | None" = None

    @property
    def key(self) -> str:
        return f"{self.module.rel}::{self.qual}"

    @property
    def name(self) -> str:
        return self.qual.rsplit(".", 1)[-1]

    def params(self) -> list[str]:
        a = self.node.args
        return [x.arg for x in [*a.posonlyargs, *a.args, *a.kwonlyargs]]

    def __hash__(self) -> int:
        return hash(self.key)

    def __eq__(self, other: object) -> bool:
        return isinstance(other, Func) and other.key == self.key


def set_parents(tree: ast.AST) -> None:
    for parent in ast.walk(tree):
        for child in ast.iter_child_nodes(parent):
            child._parent = parent  # type: ignore[attr-defined]


def parent_of(node: ast.AST) -> ast.AST | None:
    return getattr(node, "_parent", None)


def enclosing(node: ast.AST, *types: type) -> ast.AST | None:
    cur = parent_of(node)
    while cur is not None and not isinstance(cur, types):
        cur = parent_of(cur)
    return cur


def walk_own(fn: ast.AST) -> Iterator[ast.AST]:
    """Walk the body of a function without descending into nested function
    or class definitions (lambdas and comprehensions are included)."""
    stack = list(ast.iter_child_nodes(fn))
    while stack:
        n = stack.pop()
        yield n
        if isinstance(n, (ast.FunctionDef, ast.AsyncFunctionDef, ast.ClassDef)):
            continue
        stack.extend(ast.iter_child_nodes(n))


class Program:
    def __init__(self, root: str | None = None, scope_exclude: tuple[str, ...] = ("prosemirror/test_builder/",)) -> None:
        self.root = root or REPO
        self.modules: dict[str, Module] = {}
        self.funcs: dict[str, Func] = {}
        self.classes: dict[str, tuple[Module, ast.ClassDef]] = {}
        self.scope_exclude = scope_exclude
        self._types = None
        self._load()

    # ------------------------------------------------------------------ load
    def _load(self) -> None:
        pkg = os.path.join(self.root, PKG)
        if not os.path.isdir(pkg):
            raise AnalysisError(f"package directory {pkg} not found")
        for dirpath, _dirs, files in sorted(os.walk(pkg)):
            for f in sorted(files):
                if not f.endswith(".py"):
                    continue
                path = os.path.join(dirpath, f)
                rel = os.path.relpath(path, self.root)
                text = open(path, encoding="utf-8").read()
                try:
                    tree = ast.parse(text, filename=rel)
                except SyntaxError as e:
                    raise AnalysisError(f"cannot parse {rel}: {e}") from e
                set_parents(tree)
                name = rel[:-3].replace("/", ".")
                if name.endswith(".__init__"):
                    name = name[: -len(".__init__")]
                m = Module(rel, name, path, text, tree)
                self.modules[rel] = m
                self._index(m, tree, "", None, None)

    def _index(self, m: Module, node: ast.AST, prefix: str, cls: ast.ClassDef | None, parent: Func | None) -> None:
        for ch in ast.iter_child_nodes(node):
            if isinstance(ch, (ast.FunctionDef, ast.AsyncFunctionDef)):
                qual = prefix + ch.name
                f = Func(m, qual, ch, cls, parent)
                # property setters share a name with the getter: keep the getter
                key = f.key
                if key in self.funcs:
                    prev = self.funcs[key]
                    prev_overload = any("overload" in src(d) for d in prev.node.decorator_list)  # type: ignore[union-attr]
                    if prev_overload:
                        # the implementation replaces its @overload stubs
                        del self.funcs[key]
                    else:
                        # e.g. a property setter: keep the getter under the plain name
                        key = key + "#" + str(sum(1 for k in self.funcs if k.startswith(f.key)))
                        f.qual = key.split("::", 1)[1]
                self.funcs[key] = f
                self._index(m, ch, qual + ".", None, f)
            elif isinstance(ch, ast.ClassDef):
                self.classes[f"{m.rel}::{prefix}{ch.name}"] = (m, ch)
                self._index(m, ch, prefix + ch.name + ".", ch, parent)
            elif isinstance(ch, (ast.If, ast.Try, ast.With, ast.For, ast.While)):
                self._index(m, ch, prefix, cls, parent)

    # ---------------------------------------------------------------- lookup
    def module(self, rel: str) -> Module:
        if rel not in self.modules:
            raise AnalysisError(f"anchored module {rel} vanished")
        return self.modules[rel]

    def func(self, key: str) -> Func:
        """key = 'prosemirror/x/y.py::Qual.name'"""
        if key not in self.funcs:
            raise AnalysisError(f"anchored function {key} vanished")
        return self.funcs[key]

    def has_func(self, key: str) -> bool:
        return key in self.funcs

    def cls(self, key: str) -> tuple[Module, ast.ClassDef]:
        if key not in self.classes:
            raise AnalysisError(f"anchored class {key} vanished")
        return self.classes[key]

    def in_scope(self, rel: str) -> bool:
        return not any(rel.startswith(x) for x in self.scope_exclude)

    def all_funcs(self, scope_only: bool = True) -> list[Func]:
        return [f for f in self.funcs.values() if not scope_only or self.in_scope(f.module.rel)]

    def func_of_node(self, m: Module, node: ast.AST) -> Func | None:
        cur: ast.AST | None = node
        while cur is not None:
            if isinstance(cur, (ast.FunctionDef, ast.AsyncFunctionDef)):
                for f in self.funcs.values():
                    if f.node is cur:
                        return f
            cur = parent_of(cur)
        return None

    @property
    def types(self):  # lazy mypy type map
        if self._types is None:
            from .typemap import TypeMap

            self._types = TypeMap(self)
        return self._types

    def digest(self, rels: list[str] | None = None) -> str:
        h = hashlib.sha256()
        for rel in sorted(rels or self.modules):
            if rel in self.modules:
                h.update(rel.encode())
                h.update(self.modules[rel].source.encode())
        return h.hexdigest()[:16]


# ----------------------------------------------------------------- findings
@dataclass
class Finding:
    rule: str
    where: str  # file::function
    line: int
    construct: str  # normalised text of the offending construct (key, not a line number)
    message: str
    witness: list[str] = field(default_factory=list)

    @property
    def key(self) -> str:
        return f"{self.rule} {self.where} {self.construct}"

    def to_json(self) -> dict[str, Any]:
        return {
            "rule": self.rule,
            "where": self.where,
            "line": self.line,
            "construct": self.construct,
            "message": self.message,
            "witness": self.witness,
        }


@dataclass
class Obligation:
    rule: str
    where: str
    what: str
    ok: bool = True
    nontrivial: bool = True

    def to_json(self) -> dict[str, Any]:
        return {"rule": self.rule, "where": self.where, "obligation": self.what, "verdict": "holds" if self.ok else "VIOLATED"}


class Report:
    """Collects obligations and findings of one property check."""

    def __init__(self, prop: str) -> None:
        self.prop = prop
        self.obligations: list[Obligation] = []
        self.findings: list[Finding] = []
        self.notes: list[str] = []
        self.counters: dict[str, int] = {}
        self.rules: list[str] = []
        self.xref: dict[str, Any] = {}
        self.errors: list[str] = []

    def ob(self, rule: str, where: str, what: str, ok: bool = True, nontrivial: bool = True) -> Obligation:
        o = Obligation(rule, where, what, ok, nontrivial)
        self.obligations.append(o)
        return o

    def violate(self, rule: str, fn: "Func | str", node: ast.AST | None, construct: str, message: str, witness: list[str] | None = None, what: str | None = None) -> None:
        where = fn.key if isinstance(fn, Func) else fn
        line = getattr(node, "lineno", 0) if node is not None else 0
        self.findings.append(Finding(rule, where, line, construct, message, witness or []))
        self.ob(rule, where, what or message, ok=False)

    def count(self, name: str, n: int = 1) -> None:
        self.counters[name] = self.counters.get(name, 0) + n

    def note(self, s: str) -> None:
        self.notes.append(s)

    def expect_at_least(self, rule: str, what: str, found: int, expected: int) -> None:
        """Fail closed: a rule that matches fewer sites than were confirmed by
        hand is analysis-broken, never a silent pass."""
        if found < expected:
            raise AnalysisError(f"{rule}: found {found} {what}, expected at least {expected} (anchor drift: the instance table needs maintenance)")


def load_known_findings() -> dict[str, list[str]]:
    """Lines `known: property=<id> <finding key>`; `fixed:` lines suppress nothing."""
    path = os.path.join(VERIF, "known_findings.txt")
    out: dict[str, list[str]] = {}
    if os.path.exists(path):
        for line in open(path, encoding="utf-8"):
            line = line.strip()
            if line.startswith("known:"):
                rest = line[len("known:"):].strip()
                pid, _, key = rest.partition(" ")
                out.setdefault(pid.replace("property=", ""), []).append(key.strip())
    return out


def finish(report: Report, prog: Program, tier: str, t0: float, explanation: str, assumptions: list[str], extra: dict[str, Any] | None = None) -> int:
    """Write evidence + replay files, print verdict lines, return exit code."""
    known = load_known_findings().get(report.prop, [])
    new = [f for f in report.findings if f.key not in known]
    listed = [f for f in report.findings if f.key in known]
    evid_dir = os.path.join(VERIF, "evidence")
    os.makedirs(evid_dir, exist_ok=True)
    obligations = len(report.obligations)
    discharged = sum(1 for o in report.obligations if o.ok)
    distinct = len({(o.rule, o.where, o.what) for o in report.obligations if o.nontrivial})
    samples = [o.to_json() for o in report.obligations[:: max(1, obligations // 12)]][:14]
    coverage: dict[str, Any] = {
        "explanation": explanation,
        "rules": report.rules,
        "obligations": obligations,
        "discharged": discharged,
        "evaluations": max(obligations, 1),
        "distinct_nontrivial": distinct,
        "rule": "one evaluation per rule instance (obligation) found in the current source; an obligation is non-trivial when it constrains a concrete construct (not a vacuous 'no such site'); distinct = distinct (rule, function, obligation text)",
        "samples": samples,
        "checker_cmd": f"/verif/check {report.prop} --tier {tier}",
        "trusted_base": ["CPython ast", "mypy (type map, where used)", "frozen instance tables in /verif/pmverif/rules", "hand-built CFG /verif/pmverif/cfg.py"],
        "counters": report.counters,
        "obligations_per_rule": {r: sum(1 for o in report.obligations if o.rule == r) for r in sorted({o.rule for o in report.obligations})},
        "functions_with_obligations": sorted({o.where for o in report.obligations}),
        "functions_analysed": len({o.where for o in report.obligations}),
        "modules_digest": prog.digest(),
        "repo_root": prog.root,
        "notes": report.notes[:40],
        "cross_reference": report.xref,
        "findings": [f.to_json() for f in report.findings],
        "analysis_errors": report.errors,
        "exhaustive": True,
    }
    if extra:
        coverage.update(extra)
    evidence = {
        "property_id": report.prop,
        "tier": tier,
        "seed": int(os.environ.get("VERIF_SEED", "0") or 0),
        "level": "other",
        "coverage": coverage,
        "assumptions": assumptions,
        "wall_s": round(time.time() - t0, 3),
        "violations": len(new),
    }
    scratch = bool(os.environ.get("PMVERIF_NO_EVIDENCE"))
    if not scratch:
        with open(os.path.join(evid_dir, f"{report.prop}.json"), "w", encoding="utf-8") as fh:
            json.dump(evidence, fh, indent=1)
    print(f"[{report.prop}] tier={tier} root={prog.root} rules={','.join(report.rules)} obligations={obligations} discharged={discharged} findings={len(report.findings)} wall={evidence['wall_s']}s")
    for k, v in sorted(report.counters.items()):
        print(f"  analysed {k}: {v}")
    for f in listed:
        print(f"KNOWN-FINDING: property={report.prop} {f.key}")
    for e in report.errors:
        print(f"ANALYSIS-ERROR property={report.prop}: {e}")
    if new:
        rdir = os.path.join(VERIF, "replay")
        rpath = os.path.join(rdir, f"{report.prop}.json")
        if not scratch:
            os.makedirs(rdir, exist_ok=True)
            with open(rpath, "w", encoding="utf-8") as fh:
                json.dump({"property": report.prop, "root": prog.root, "findings": [f.to_json() for f in new]}, fh, indent=1)
        for f in new:
            print(f"  FINDING {f.rule} {f.where}:{f.line} [{f.construct}] {f.message}")
            for w in f.witness:
                print(f"      {w}")
        print(f"VIOLATION property={report.prop} replay={rpath}")
        return 1
    return 2 if report.errors else 0
