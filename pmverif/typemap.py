"""E1: resolved types through mypy used as a library (no subprocess, no cache).

Structure is walked on the stdlib `ast`; types are looked up by source span.
"""

from __future__ import annotations

import ast
import os
from typing import Any

from .core import AnalysisError, Module, Program


class TypeMap:
    def __init__(self, prog: Program) -> None:
        try:
            from mypy import build
            from mypy.find_sources import create_source_list
            from mypy.options import Options
        except ImportError as e:  # pragma: no cover
            raise AnalysisError(f"mypy is not importable: {e}") from e
        import sys

        self.prog = prog
        cwd = os.getcwd()
        os.chdir(prog.root)
        try:
            opts = Options()
            opts.preserve_asts = True
            opts.export_types = True
            opts.incremental = False
            opts.cache_dir = os.devnull
            opts.python_executable = sys.executable
            opts.strict_optional = True
            opts.check_untyped_defs = True
            opts.show_traceback = False
            srcs = create_source_list(["prosemirror"], opts)
            try:
                res = build.build(srcs, opts)
            except Exception as e:  # noqa: BLE001
                raise AnalysisError(f"mypy build failed: {e}") from e
        finally:
            os.chdir(cwd)
        self.errors: list[str] = list(res.errors)
        self.res = res
        self.spans: dict[str, dict[tuple[int, int, int, int], Any]] = {}
        self.mfiles: dict[str, Any] = {}
        from mypy.nodes import Expression, MypyFile, Node as MNode, TypeInfo, Var

        types = res.types
        for modname, mf in res.files.items():
            path = getattr(mf, "path", "") or ""
            if not modname.startswith("prosemirror") or os.path.isdir(os.path.join(prog.root, path)):
                continue
            rel = os.path.relpath(os.path.join(prog.root, path), prog.root)
            self.mfiles[rel] = mf
            table: dict[tuple[int, int, int, int], Any] = {}
            seen: set[int] = set()
            stack: list[Any] = list(mf.defs)
            while stack:
                n = stack.pop()
                if id(n) in seen:
                    continue
                seen.add(id(n))
                if isinstance(n, Expression):
                    t = types.get(n)
                    if t is not None and n.end_line is not None:
                        key = (n.line, n.column, n.end_line, n.end_column)
                        table.setdefault(key, t)
                for attr in dir(type(n)):
                    if attr.startswith("_"):
                        continue
                    try:
                        v = getattr(n, attr)
                    except Exception:  # noqa: BLE001
                        continue
                    if isinstance(v, (TypeInfo, MypyFile, Var)):
                        continue
                    if isinstance(v, MNode):
                        stack.append(v)
                    elif isinstance(v, (list, tuple)):
                        for x in v:
                            if isinstance(x, MNode) and not isinstance(x, (TypeInfo, MypyFile, Var)):
                                stack.append(x)
                            elif isinstance(x, (list, tuple)):
                                for y in x:
                                    if isinstance(y, MNode) and not isinstance(y, (TypeInfo, MypyFile, Var)):
                                        stack.append(y)
            self.spans[rel] = table

    # ------------------------------------------------------------------ api
    def raw(self, m: Module, node: ast.AST) -> Any:
        key = (getattr(node, "lineno", -1), getattr(node, "col_offset", -1), getattr(node, "end_lineno", -1), getattr(node, "end_col_offset", -1))
        return self.spans.get(m.rel, {}).get(key)

    def proper(self, m: Module, node: ast.AST) -> Any:
        from mypy.types import get_proper_type

        t = self.raw(m, node)
        return get_proper_type(t) if t is not None else None

    def text(self, m: Module, node: ast.AST) -> str:
        t = self.raw(m, node)
        return str(t) if t is not None else "?"

    def instance_names(self, m: Module, node: ast.AST) -> list[str]:
        """Full names of the classes the expression may be an instance of
        (union members flattened); 'None' for NoneType; 'Any' for Any."""
        return type_names(self.proper(m, node))

    def is_instance(self, m: Module, node: ast.AST, fullname: str) -> bool:
        names = self.instance_names(m, node)
        return bool(names) and all(n == fullname or n == "None" for n in names) and fullname in names

    def may_be(self, m: Module, node: ast.AST, fullname: str) -> bool:
        return fullname in self.instance_names(m, node)

    def is_any(self, m: Module, node: ast.AST) -> bool:
        from mypy.types import AnyType

        t = self.proper(m, node)
        return isinstance(t, AnyType)

    def is_noreturn(self, m: Module, node: ast.AST) -> bool:
        from mypy.types import UninhabitedType

        t = self.proper(m, node)
        return isinstance(t, UninhabitedType)

    def class_mro(self, fullname: str) -> list[str]:
        cache = self.__dict__.setdefault("_mro_cache", {})
        if fullname not in cache:
            info = self._typeinfo(fullname)
            cache[fullname] = [b.fullname for b in info.mro] if info is not None else []
        return cache[fullname]

    def _typeinfo(self, fullname: str) -> Any:
        modname, _, cls = fullname.rpartition(".")
        mf = self.res.files.get(modname)
        if mf is None:
            return None
        sym = mf.names.get(cls)
        from mypy.nodes import TypeInfo

        return sym.node if sym is not None and isinstance(sym.node, TypeInfo) else None

    def subclasses_of(self, fullname: str) -> list[str]:
        cache = self.__dict__.setdefault("_sub_cache", {})
        if fullname not in cache:
            cache[fullname] = self._subclasses_of(fullname)
        return cache[fullname]

    def _subclasses_of(self, fullname: str) -> list[str]:
        from mypy.nodes import TypeInfo

        out = []
        for modname, mf in self.res.files.items():
            if not modname.startswith("prosemirror"):
                continue
            for name, sym in mf.names.items():
                if isinstance(sym.node, TypeInfo) and sym.node.fullname.startswith(modname + "."):
                    if sym.node.fullname != fullname and any(b.fullname == fullname for b in sym.node.mro):
                        if sym.node.fullname not in out:
                            out.append(sym.node.fullname)
        return sorted(out)


def type_names(t: Any) -> list[str]:
    from mypy.types import AnyType, CallableType, Instance, LiteralType, NoneType, Overloaded, TupleType, TypedDictType, TypeType, UnionType, get_proper_type, TypeVarType

    if t is None:
        return []
    t = get_proper_type(t)
    if isinstance(t, UnionType):
        out: list[str] = []
        for it in t.items:
            for n in type_names(it):
                if n not in out:
                    out.append(n)
        return out
    if isinstance(t, NoneType):
        return ["None"]
    if isinstance(t, AnyType):
        return ["Any"]
    if isinstance(t, Instance):
        return [t.type.fullname]
    if isinstance(t, LiteralType):
        return type_names(t.fallback)
    if isinstance(t, TupleType):
        return ["builtins.tuple"]
    if isinstance(t, TypedDictType):
        return ["TypedDict:" + (t.fallback.type.fullname if t.fallback else "?")]
    if isinstance(t, TypeType):
        return ["type[" + ",".join(type_names(t.item)) + "]"]
    if isinstance(t, TypeVarType):
        return type_names(t.upper_bound)
    if isinstance(t, Overloaded):
        it = t.items[0]
        if it.is_type_obj():
            return ["type[" + it.type_object().fullname + "]"]
        return ["callable"]
    if isinstance(t, CallableType):
        if t.is_type_obj():
            return ["type[" + t.type_object().fullname + "]"]
        return ["callable"]
    return [type(t).__name__]


BUILTIN_CONTAINERS = {"builtins.list", "builtins.dict", "builtins.set", "builtins.bytearray", "collections.OrderedDict", "collections.defaultdict", "collections.deque"}
