"""Is an added early exit redundant?

`if C: return K` was put in front of unchanged code.  The exit changes nothing when, under the
assumption C, the unchanged continuation (a) performs no effect other than assignments to locals and
(b) can only end in `return K'` with K' = K (for an added `continue`: reaches the end of the loop body
having made the same local assignments as the added branch).  This module decides that by a small
abstract execution of the continuation: tests are decided from C by syntactic entailment and
one-premise linear arithmetic; a loop is only ever *skipped* (its entry test is false, its iterable is
empty under C), never unrolled; calls are not followed.  "Cannot decide" is the answer whenever any of
this does not apply - the caller then keeps its finding."""

from __future__ import annotations

import ast
from fractions import Fraction

from .core import parent_of, src
from .norm import clone, facts as _facts, linear

UNKNOWN = None
PURE_CALLS = {"len", "min", "max", "int", "cast", "abs", "bool", "str", "text_length", "isinstance", "range", "reversed", "enumerate", "list", "tuple", "sorted"}


class Ctx:
    def __init__(self, phi: set[str], env: dict[str, ast.expr]) -> None:
        self.phi = set(phi)
        self.env = dict(env)
        self.sets: list[tuple[str, str]] = []

    def fork(self, more: list[str]) -> "Ctx":
        c = Ctx(self.phi | set(more), self.env)
        c.sets = list(self.sets)
        if hasattr(self, "depth"):
            c.depth = self.depth  # type: ignore[attr-defined]
        return c


def _subst(e: ast.expr, env: dict[str, ast.expr]) -> ast.expr:
    class T(ast.NodeTransformer):
        def visit_Name(self, node: ast.Name) -> ast.AST:
            if isinstance(node.ctx, ast.Load) and node.id in env:
                return clone(env[node.id])
            return node

        def visit_Lambda(self, node: ast.Lambda) -> ast.AST:
            return node

    return ast.fix_missing_locations(T().visit(clone(e)))


def _canon(e: ast.expr) -> str:
    from .rules.rn import canon

    return canon(e)


def _lin(e: ast.expr) -> dict:
    return linear(e, lambda x: " ".join(src(x).split()))


def _premises(phi: set[str]) -> list[tuple[dict, str]]:
    """(lin, op) meaning lin op 0 for the comparison facts of phi (plus len(x) == 0 for falsy(x))."""
    out = []
    for f in phi:
        if f.startswith("falsy(") and f.endswith(")"):
            out.append(({f"len({f[6:-1]})": Fraction(1)}, "=="))
            continue
        try:
            t = ast.parse(f, mode="eval").body
        except SyntaxError:
            continue
        if isinstance(t, ast.Compare) and len(t.ops) == 1 and isinstance(t.ops[0], (ast.Lt, ast.LtE, ast.Eq, ast.NotEq, ast.Gt, ast.GtE)):
            l = dict(_lin(t.left))
            for k, v in _lin(t.comparators[0]).items():
                l[k] = l.get(k, Fraction(0)) - v
            l = {k: v for k, v in l.items() if v != 0}
            op = {ast.Lt: "<", ast.LtE: "<=", ast.Eq: "==", ast.NotEq: "!=", ast.Gt: ">", ast.GtE: ">="}[type(t.ops[0])]
            out.append((l, op))
    return out


def _interval(op: str) -> tuple[Fraction | None, bool, Fraction | None, bool] | None:
    """t op 0  ->  (lo, lo_closed, hi, hi_closed) for t."""
    z = Fraction(0)
    return {"<": (None, False, z, False), "<=": (None, False, z, True), "==": (z, True, z, True), ">": (z, False, None, False), ">=": (z, True, None, False)}.get(op)


def _decide_cmp(l: dict, op: str, prem: list[tuple[dict, str]]) -> bool | None:
    """Truth of `l op 0` given one-premise linear reasoning."""
    const = l.get("", Fraction(0))
    vars_ = {k: v for k, v in l.items() if k != ""}

    def holds(lo, lc, hi, hc) -> bool | None:
        # value set of l is the interval; decide l op 0
        def all_(pred_lo, pred_hi):  # noqa: ANN001
            return pred_lo and pred_hi

        z = Fraction(0)
        if op == "<":
            t = hi is not None and (hi < z or (hi == z and not hc))
            f = lo is not None and (lo > z or (lo == z and True))
            f = lo is not None and lo >= z
        elif op == "<=":
            t = hi is not None and hi <= z
            f = lo is not None and (lo > z or (lo == z and not lc))
        elif op == ">":
            t = lo is not None and (lo > z or (lo == z and not lc))
            f = hi is not None and hi <= z
        elif op == ">=":
            t = lo is not None and lo >= z
            f = hi is not None and (hi < z or (hi == z and not hc))
        elif op == "==":
            t = lo is not None and hi is not None and lo == hi == z
            f = (hi is not None and (hi < z or (hi == z and not hc))) or (lo is not None and (lo > z or (lo == z and not lc)))
        elif op == "!=":
            f = lo is not None and hi is not None and lo == hi == z
            t = (hi is not None and (hi < z or (hi == z and not hc))) or (lo is not None and (lo > z or (lo == z and not lc)))
        else:
            return None
        if t:
            return True
        if f:
            return False
        return None

    if not vars_:
        return holds(const, True, const, True)
    for pl, pop in prem:
        pv = {k: v for k, v in pl.items() if k != ""}
        pc = pl.get("", Fraction(0))
        if not pv or set(pv) != set(vars_):
            continue
        k0 = next(iter(pv))
        ratio = vars_[k0] / pv[k0]
        if any(vars_[k] != ratio * pv[k] for k in pv):
            continue
        iv = _interval(pop)
        if iv is None:
            continue
        lo, lc, hi, hc = iv  # for t = pv.x + pc
        # l = ratio * (t - pc) + const
        def mp(x):  # noqa: ANN001, ANN202
            return None if x is None else ratio * (x - pc) + const

        nlo, nhi = mp(lo), mp(hi)
        nlc, nhc = lc, hc
        if ratio < 0:
            nlo, nhi, nlc, nhc = nhi, nlo, hc, lc
        r = holds(nlo, nlc, nhi, nhc)
        if r is not None:
            return r
    return None


def decide(test: ast.expr, c: Ctx) -> bool | None:
    t = _subst(test, c.env)
    if isinstance(t, ast.UnaryOp) and isinstance(t.op, ast.Not):
        r = decide(t.operand, Ctx(c.phi, {}))
        return None if r is None else not r
    if isinstance(t, ast.BoolOp):
        rs = [decide(v, Ctx(c.phi, {})) for v in t.values]
        if isinstance(t.op, ast.And):
            if any(r is False for r in rs):
                return False
            return True if all(r is True for r in rs) else None
        if any(r is True for r in rs):
            return True
        return False if all(r is False for r in rs) else None
    if isinstance(t, ast.Constant):
        return bool(t.value)
    if isinstance(t, ast.Compare) and len(t.ops) == 1 and isinstance(t.ops[0], (ast.Is, ast.IsNot)) and isinstance(t.left, ast.Constant) and isinstance(t.comparators[0], ast.Constant):
        same = t.left.value is t.comparators[0].value
        return same if isinstance(t.ops[0], ast.Is) else not same
    ft, ff = _facts(t, True), _facts(t, False)
    phi = set(c.phi)
    for f in list(phi):  # identity implies equality; None is falsy
        if " is " in f and " is not " not in f and not f.endswith(" is None"):
            a, b = f.split(" is ", 1)
            phi |= {f"{a} == {b}", f"{b} == {a}"}
        if f.endswith(" is None"):
            phi.add(f"falsy({f[:-8]})")
        # model invariants of Fragment / Node: no children -> no first / last child; size 0 -> no children
        for suffix, more in ((".child_count)", (".first_child)", ".last_child)")), (".size)", (".child_count)", ".first_child)", ".last_child)"))):
            if f.startswith("falsy(") and f.endswith(suffix):
                base = f[6 : -len(suffix)]
                phi |= {f"falsy({base}{m}" for m in more}
    if len(ft) == 1 and ft[0] in phi:
        return True
    if len(ff) == 1 and ff[0] in phi:
        return False
    if isinstance(t, ast.Compare) and len(t.ops) == 1 and isinstance(t.ops[0], (ast.Lt, ast.LtE, ast.Eq, ast.NotEq, ast.Gt, ast.GtE)):
        l = dict(_lin(t.left))
        for k, v in _lin(t.comparators[0]).items():
            l[k] = l.get(k, Fraction(0)) - v
        l = {k: v for k, v in l.items() if v != 0}
        op = {ast.Lt: "<", ast.LtE: "<=", ast.Eq: "==", ast.NotEq: "!=", ast.Gt: ">", ast.GtE: ">="}[type(t.ops[0])]
        return _decide_cmp(l, op, _premises(phi))
    # truthiness of a collection-valued expression known empty / of len(...)
    if isinstance(t, ast.Call) and isinstance(t.func, ast.Name) and t.func.id == "len" and len(t.args) == 1:
        r = _decide_cmp({f"len({' '.join(src(t.args[0]).split())})": Fraction(1)}, "!=", _premises(phi))
        return r
    return None


def decide_sc(test: ast.expr, c: Ctx) -> tuple[bool | None, bool]:
    """(truth, evaluated_only_pure_parts): short-circuit evaluation order - an impure operand that is
    never reached because an earlier operand decides the result does not matter."""
    t = test
    if isinstance(t, ast.UnaryOp) and isinstance(t.op, ast.Not):
        r, ok = decide_sc(t.operand, c)
        return (None if r is None else not r), ok
    if isinstance(t, ast.BoolOp):
        is_and = isinstance(t.op, ast.And)
        all_known = True
        for v in t.values:
            r, ok = decide_sc(v, c)
            if not ok:
                return None, False
            if r is None:
                if not _pure_expr(v):
                    return None, False
                all_known = False
                continue
            if r is (not is_and):
                # decides the truth of the whole expression: the earlier operands were pure, and whichever
                # of them ends the evaluation first, the result has this truth value
                return (not is_and), True
        return (is_and if all_known else None), True
    if not _pure_expr(t):
        return None, False
    return decide(t, c), True


def _pure_expr(e: ast.AST) -> bool:
    for x in ast.walk(e):
        if isinstance(x, ast.Call):
            f = x.func
            if not (isinstance(f, ast.Name) and f.id in PURE_CALLS):
                return False
        if isinstance(x, (ast.Await, ast.Yield, ast.YieldFrom, ast.NamedExpr)):
            return False
    return True


def _iter_empty(it: ast.expr, c: Ctx) -> bool | None:
    it = _subst(it, c.env)
    while True:
        if isinstance(it, ast.Call) and isinstance(it.func, ast.Name) and it.func.id in ("reversed", "enumerate", "list", "iter") and len(it.args) >= 1:
            it = it.args[0]
        elif isinstance(it, ast.Subscript) and isinstance(it.slice, ast.Slice):
            it = it.value  # a slice of an empty sequence is empty
        else:
            break
    if isinstance(it, ast.Call) and isinstance(it.func, ast.Name) and it.func.id == "range" and not it.keywords and 1 <= len(it.args) <= 3:
        a = it.args
        lo: ast.expr = ast.Constant(value=0) if len(a) == 1 else a[0]
        hi: ast.expr = a[0] if len(a) == 1 else a[1]
        neg = len(a) == 3 and isinstance(a[2], ast.UnaryOp) and isinstance(a[2].op, ast.USub)
        if len(a) == 3 and not (isinstance(a[2], ast.Constant) or neg):
            return None
        test = ast.Compare(left=lo, ops=[ast.LtE() if neg else ast.GtE()], comparators=[hi])
        r = decide(ast.fix_missing_locations(test), Ctx(c.phi, {}))
        return True if r is True else (False if r is False else None)
    f = f"falsy({' '.join(src(it).split())})"
    if f in c.phi:
        return True
    r = decide(ast.Call(func=ast.Name(id="len", ctx=ast.Load()), args=[it], keywords=[]), Ctx(c.phi, {}))
    return None if r is None else (not r)


def _run(stmts: list[ast.stmt], c: Ctx, out: list, budget: list[int]) -> bool:
    """Execute stmts abstractly.  Appends terminal outcomes to `out`; returns True when control falls
    off the end of the list in (some fork of) this context - then `out` gets ('fall', ctx)."""
    for i, s in enumerate(stmts):
        budget[0] -= 1
        if budget[0] < 0:
            out.append(("unknown", None, c))
            return False
        if isinstance(s, (ast.Pass, ast.Assert, ast.Global, ast.Nonlocal, ast.Import, ast.ImportFrom, ast.FunctionDef, ast.ClassDef)) or (isinstance(s, ast.Expr) and isinstance(s.value, ast.Constant)):
            continue
        if isinstance(s, (ast.Assign, ast.AnnAssign)):
            tgts = s.targets if isinstance(s, ast.Assign) else [s.target]
            if s.value is None:
                continue
            if len(tgts) == 1 and isinstance(tgts[0], ast.Name) and _pure_expr(s.value):
                v = _subst(s.value, c.env)
                c.env[tgts[0].id] = v
                c.sets.append((tgts[0].id, _canon(v)))
                continue
            if len(tgts) == 1 and isinstance(tgts[0], (ast.Tuple, ast.List)) and isinstance(s.value, (ast.Tuple, ast.List)) and len(tgts[0].elts) == len(s.value.elts) and all(isinstance(x, ast.Name) for x in tgts[0].elts) and _pure_expr(s.value):
                vals = [_subst(x, c.env) for x in s.value.elts]
                for nm, v in zip(tgts[0].elts, vals):
                    c.env[nm.id] = v  # type: ignore[attr-defined]
                    c.sets.append((nm.id, _canon(v)))  # type: ignore[attr-defined]
                continue
            out.append(("unknown", None, c))
            return False
        if isinstance(s, ast.AugAssign):
            if isinstance(s.target, ast.Name) and _pure_expr(s.value):
                cur = c.env.get(s.target.id, ast.Name(id=s.target.id, ctx=ast.Load()))
                v = ast.fix_missing_locations(ast.BinOp(left=clone(cur), op=s.op, right=_subst(s.value, c.env)))
                c.env[s.target.id] = v
                c.sets.append((s.target.id, _canon(v)))
                continue
            out.append(("unknown", None, c))
            return False
        if isinstance(s, ast.Return):
            val = _simplify(_subst(s.value, c.env), c) if s.value is not None else ast.Constant(value=None)
            inl = _inline_return(val, c, budget)
            if inl is not None:
                out.extend(inl)
                return False
            out.append(("return", val, c))
            return False
        if isinstance(s, ast.Continue):
            out.append(("continue", None, c))
            return False
        if isinstance(s, ast.Break):
            out.append(("break", None, c))
            return False
        if isinstance(s, ast.Raise):
            out.append(("raise", None, c))
            return False
        if isinstance(s, ast.If):
            r, ok = decide_sc(s.test, c)
            if not ok:
                out.append(("unknown", None, c))
                return False
            rest = stmts[i + 1 :]
            if r is True:
                return _run(list(s.body) + rest, c, out, budget)
            if r is False:
                return _run(list(s.orelse) + rest, c, out, budget)
            t = _subst(s.test, c.env)
            a = _run(list(s.body) + rest, c.fork(_facts(t, True) if len(_facts(t, True)) <= 3 else []), out, budget)
            b = _run(list(s.orelse) + rest, c.fork(_facts(t, False) if len(_facts(t, False)) <= 3 else []), out, budget)
            return a or b
        if isinstance(s, ast.While):
            if decide_sc(s.test, c) == (False, True):
                if s.orelse:
                    return _run(list(s.orelse) + stmts[i + 1 :], c, out, budget)
                continue
            out.append(("unknown", None, c))
            return False
        if isinstance(s, (ast.For, ast.AsyncFor)):
            if _pure_expr(s.iter) and _iter_empty(s.iter, c) is True:
                if s.orelse:
                    return _run(list(s.orelse) + stmts[i + 1 :], c, out, budget)
                continue
            it = _subst(s.iter, c.env)
            if isinstance(s.target, ast.Name) and isinstance(it, ast.Call) and isinstance(it.func, ast.Name) and it.func.id == "range" and len(it.args) == 1 and not it.keywords and not s.orelse:
                one = ast.fix_missing_locations(ast.Compare(left=it.args[0], ops=[ast.Eq()], comparators=[ast.Constant(value=1)]))
                if decide(one, Ctx(c.phi, {})) is True:
                    # exactly one iteration, with the loop variable 0
                    c.env[s.target.id] = ast.Constant(value=0)
                    inner: list = []
                    _run(list(s.body), c, inner, budget)
                    fell = False
                    for kind, val, cx in inner:
                        if kind in ("fall", "continue", "break"):
                            fell = _run(stmts[i + 1 :], cx, out, budget) or fell
                        else:
                            out.append((kind, val, cx))
                    return fell
            out.append(("unknown", None, c))
            return False
        out.append(("unknown", None, c))  # call statements, stores, try, with, ...
        return False
    out.append(("fall", None, c))
    return True


def _simplify(e: ast.expr, c: Ctx) -> ast.expr:
    """Fold conditional expressions and `or` / `and` chains whose tests are decided (also inside
    call arguments and other sub-expressions)."""

    class T(ast.NodeTransformer):
        def visit_IfExp(self, node: ast.IfExp) -> ast.AST:
            self.generic_visit(node)
            return _simplify1(node, c)

        def visit_BoolOp(self, node: ast.BoolOp) -> ast.AST:
            self.generic_visit(node)
            return _simplify1(node, c)

        def visit_Lambda(self, node: ast.Lambda) -> ast.AST:
            return node

    return ast.fix_missing_locations(T().visit(clone(e)))


def _simplify1(e: ast.expr, c: Ctx) -> ast.expr:
    if isinstance(e, ast.IfExp):
        r = decide(e.test, Ctx(c.phi, {}))
        if r is True:
            return _simplify1(e.body, c)
        if r is False:
            return _simplify1(e.orelse, c)
        return e
    if isinstance(e, ast.BoolOp):
        vals = list(e.values)
        while len(vals) > 1:
            r = decide(vals[0], Ctx(c.phi, {}))
            if r is None or not _pure_expr(vals[0]):
                break
            if (isinstance(e.op, ast.Or) and r is True) or (isinstance(e.op, ast.And) and r is False):
                return _simplify1(vals[0], c)
            vals = vals[1:]
        if len(vals) == 1:
            return _simplify1(vals[0], c)
        return ast.BoolOp(op=e.op, values=vals)
    return e


_VIEW: list = []  # the view of the function under analysis (for resolving `self.m(..)` / module functions)


def _inline_return(val: ast.expr, c: Ctx, budget: list[int]) -> list | None:
    """`return self.m(a, b)` / `return f(a, b)`: the outcomes of the callee's body under the current
    assumptions with its parameters bound to the arguments (one level, positional arguments only)."""
    if not _VIEW or not isinstance(val, ast.Call) or val.keywords or getattr(c, "depth", 0) >= 1:
        return None
    v = _VIEW[0]
    f = val.func
    key = None
    if isinstance(f, ast.Attribute) and isinstance(f.value, ast.Name) and f.value.id == "self" and "." in v.fn.qual:
        key = f"{v.fn.module.rel}::{v.fn.qual.rsplit('.', 1)[0]}.{f.attr}"
        skip = 1
    elif isinstance(f, ast.Name):
        key = f"{v.fn.module.rel}::{f.id}"
        skip = 0
    if key is None or not v.prog.has_func(key):
        return None
    callee = v.prog.func(key)
    params = callee.params()[skip:]
    if len(val.args) > len(params) or not all(_pure_expr(a) for a in val.args):
        return None
    env = {p: a for p, a in zip(params, val.args)}
    # defaults of the remaining parameters
    a_ = callee.node.args
    pos = [x.arg for x in [*a_.posonlyargs, *a_.args]][skip:]
    for p_, d in zip(reversed(pos), reversed(a_.defaults)):
        env.setdefault(p_, d)
    if any(p_ not in env for p_ in params):
        return None
    cc = Ctx(c.phi, env)
    cc.depth = 1  # type: ignore[attr-defined]
    outs: list = []
    _run([st for st in callee.node.body], cc, outs, budget)
    res = []
    for kind, rv, cx in outs:
        if kind == "fall":
            kind, rv = "return", ast.Constant(value=None)
        if kind != "return":
            return None
        nc = Ctx(cx.phi, c.env)
        nc.sets = list(c.sets)
        res.append(("return", rv, nc))
    return res or None


def _continuation(node: ast.stmt, stop_at_loop: bool) -> tuple[list[ast.stmt], ast.AST | None]:
    """Statements executed after `node` if it did nothing: following siblings, then the siblings after
    each enclosing `if` / `with` / `try` body, up to the function (or, for `continue`, the loop body)."""
    out: list[ast.stmt] = []
    cur: ast.AST = node
    while True:
        par = parent_of(cur)
        if par is None:
            return out, None
        for fld in ("body", "orelse", "finalbody"):
            blk = getattr(par, fld, None)
            if isinstance(blk, list) and any(x is cur for x in blk):
                idx = next(i for i, x in enumerate(blk) if x is cur)
                out += blk[idx + 1 :]
        if isinstance(par, (ast.FunctionDef, ast.AsyncFunctionDef, ast.Lambda)):
            return out, par
        if isinstance(par, (ast.For, ast.AsyncFor, ast.While)):
            if stop_at_loop:
                return out, par
            return out, None  # a return inside a loop: the continuation runs further iterations - not modelled
        if isinstance(par, (ast.Try, ast.With, ast.AsyncWith, ast.ExceptHandler)):
            return out, None
        cur = par


def exit_is_redundant(v, exit_stmt: ast.stmt) -> bool:  # noqa: ANN001
    """True only when the added exit provably changes nothing (see module docstring)."""
    par = parent_of(exit_stmt)
    if not isinstance(par, ast.If) or par.orelse or not par.body or par.body[-1] is not exit_stmt:
        return False
    if not _pure_expr(par.test):
        return False
    branch = par.body[:-1]
    is_loop_exit = isinstance(exit_stmt, ast.Continue)
    if isinstance(exit_stmt, ast.Break):
        return False
    cont, scope = _continuation(par, stop_at_loop=is_loop_exit)
    if scope is None:
        return False
    _VIEW[:] = [v]
    from .norm import fact_set

    base_phi = set(fact_set(v.cfg.guards_at(par)))
    # a disjunctive condition is a case split: the exit must be redundant in each case
    cases: list[set[str]] = []
    t0 = par.test
    if isinstance(t0, ast.BoolOp) and isinstance(t0.op, ast.Or):
        neg: list[str] = []
        for x in t0.values:
            cases.append(base_phi | set(neg) | set(_facts(x, True)))
            neg += _facts(x, False)
    else:
        cases.append(base_phi | set(_facts(t0, True)))
    return all(_redundant_under(v, par, exit_stmt, branch, cont, scope, is_loop_exit, phi) for phi in cases)


def _redundant_under(v, par: ast.If, exit_stmt: ast.stmt, branch: list, cont: list, scope: ast.AST, is_loop_exit: bool, phi: set[str]) -> bool:  # noqa: ANN001
    # the added branch itself: only local assignments before the exit
    bctx = Ctx(phi, {})
    bout: list = []
    if not _run(list(branch), bctx, bout, [200]) or [o for o in bout if o[0] != "fall"]:
        return False
    bctx = [o for o in bout if o[0] == "fall"][0][2]
    out: list = []
    _run(list(cont), Ctx(phi, {}), out, [400])
    if not out:
        return False
    for kind, val, c in out:
        if is_loop_exit:
            if kind not in ("fall", "continue"):
                return False
            if sorted(c.sets) != sorted(bctx.sets):
                return False
        else:
            if kind == "fall" and isinstance(scope, (ast.FunctionDef, ast.AsyncFunctionDef)):
                kind, val = "return", ast.Constant(value=None)
            if kind != "return":
                return False
            want = _subst(exit_stmt.value, bctx.env) if getattr(exit_stmt, "value", None) is not None else ast.Constant(value=None)
            if _canon(val) != _canon(want):
                # `return False` vs `return <expr>` that is decided false under the assumption
                if isinstance(want, ast.Constant) and isinstance(want.value, bool):
                    r = decide(val, Ctx(c.phi, {}))
                    if r is not None and r == want.value and _bool_typed(val):
                        continue
                return False
    return True


def _bool_typed(e: ast.expr) -> bool:
    return isinstance(e, ast.Compare) or (isinstance(e, ast.UnaryOp) and isinstance(e.op, ast.Not)) or (isinstance(e, ast.Call) and isinstance(e.func, ast.Name) and e.func.id == "bool") or (isinstance(e, ast.BoolOp) and all(_bool_typed(x) for x in e.values))
