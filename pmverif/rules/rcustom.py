"""Custom rules: RG3 (gate liveness / always-None parameter), RC-dep
(parameter relevance of validity predicates), RM-merge (slice sides of a
merged replace step), RP (paired updates), RQ (raise discipline)."""

from __future__ import annotations

import ast
import re

from ..core import parent_of, AnalysisError, Func, Program, Report, src, walk_own
from ..gates import view
from ..paths import TooManyPaths, enum_paths
from .rt import truth_tests


# ----------------------------------------------------------------------- RG3
def _gate_params(fn: Func) -> set[str]:
    """Parameters whose truthiness / non-None-ness guards something in fn."""
    params = set(fn.params()) - {"self", "cls"}
    out: set[str] = set()
    for a, _site in truth_tests(fn.node):
        if isinstance(a, ast.Name) and a.id in params:
            out.add(a.id)
        if isinstance(a, ast.Compare) and len(a.ops) == 1 and isinstance(a.ops[0], ast.IsNot) and isinstance(a.left, ast.Name) and a.left.id in params and isinstance(a.comparators[0], ast.Constant) and a.comparators[0].value is None:
            out.add(a.left.id)
    return out


def rule_rg3(prog: Program, report: Report, armed: tuple[str, ...] = ("prosemirror/model/replace.py::insert_into",)) -> None:
    """A parameter that guards a check (`if parent and not parent.can_replace`)
    must not be the literal None at every call site: the check would be dead."""
    report.rules.append("RG3")
    by_name: dict[str, list[Func]] = {}
    for f in prog.all_funcs():
        by_name.setdefault(f.name, []).append(f)
    calls: dict[str, list[tuple[Func, ast.Call]]] = {}
    for f in prog.all_funcs():
        for c in walk_own(f.node):
            if isinstance(c, ast.Call):
                nm = c.func.id if isinstance(c.func, ast.Name) else (c.func.attr if isinstance(c.func, ast.Attribute) else None)
                if nm in by_name:
                    calls.setdefault(nm, []).append((f, c))
    n = 0
    for name, fs in by_name.items():
        if len(fs) != 1:
            continue  # ambiguous name: not decided here
        fn = fs[0]
        gp = _gate_params(fn)
        if not gp or name not in calls:
            continue
        a = fn.node.args
        pos = [x.arg for x in [*a.posonlyargs, *a.args]]
        is_method = fn.cls is not None and pos and pos[0] in ("self", "cls")
        defaults = dict(zip(pos[len(pos) - len(a.defaults):], a.defaults))
        for x, d in zip(a.kwonlyargs, a.kw_defaults):
            if d is not None:
                defaults[x.arg] = d
        for p in sorted(gp):
            vals = []
            for caller, c in calls[name]:
                idx = pos.index(p) - (1 if is_method and isinstance(c.func, ast.Attribute) else 0) if p in pos else None
                v: ast.expr | None = None
                if idx is not None and 0 <= idx < len(c.args) and not any(isinstance(x, ast.Starred) for x in c.args[: idx + 1]):
                    v = c.args[idx]
                for kw in c.keywords:
                    if kw.arg == p:
                        v = kw.value
                if v is None:
                    v = defaults.get(p)
                vals.append((caller, c, v))
            n += 1
            all_none = bool(vals) and all(v is not None and isinstance(v, ast.Constant) and v.value is None for _, _, v in vals)
            if all_none:
                sites = [f"{cl.key}:{c.lineno}" for cl, c, _ in vals]
                if fn.key in armed:
                    report.violate("RG3", fn, fn.node, f"parameter `{p}` is None at every call site", f"`{p}` guards a check in {fn.qual} (e.g. `if {p} and not {p}.can_replace(...)`) but every one of the {len(vals)} call sites passes the literal None, so the check can never run", witness=sites, what=f"gate parameter `{p}` of {fn.qual} is live")
                else:
                    report.xref.setdefault("RG3 always-None gate parameters outside the armed table", []).append(f"{fn.key}({p}): {sites}")
            elif fn.key in armed:
                live = [f"{cl.qual}:{c.lineno} passes `{src(v)}`" for cl, c, v in vals if not (isinstance(v, ast.Constant) and v.value is None)]
                report.ob("RG3", fn.key, f"gate parameter `{p}` is live: {live[:2]}")
    for key in armed:
        if not any(o.where == key and o.rule == "RG3" for o in report.obligations):
            raise AnalysisError(f"RG3: {key} has no gate parameter any more (anchor drift)")
    report.count("RG3 gate parameters with call sites", n)


# -------------------------------------------------------------------- RC-dep
def _closure(fn: ast.AST, seeds: set[str]) -> set[str]:
    """Flow-insensitive transitive closure of the names a set of names depends on."""
    defs: dict[str, set[str]] = {}
    for n in walk_own(fn):
        tgts: list[ast.AST] = []
        val: ast.AST | None = None
        if isinstance(n, ast.Assign):
            tgts, val = n.targets, n.value
        elif isinstance(n, (ast.AnnAssign, ast.AugAssign)) and n.value is not None:
            tgts, val = [n.target], n.value
        elif isinstance(n, (ast.For, ast.comprehension)):
            tgts, val = [n.target], n.iter
        elif isinstance(n, ast.NamedExpr):
            tgts, val = [n.target], n.value
        if val is None:
            continue
        reads = {x.id for x in ast.walk(val) if isinstance(x, ast.Name)}
        for t in tgts:
            for x in ast.walk(t):
                if isinstance(x, ast.Name):
                    defs.setdefault(x.id, set()).update(reads)
    out = set(seeds)
    work = list(seeds)
    while work:
        x = work.pop()
        for d in defs.get(x, ()):
            if d not in out:
                out.add(d)
                work.append(d)
    return out


RC_TABLE = [
    ("prosemirror/model/node.py::Node.can_replace", ["from_", "to", "replacement", "start", "end"]),
    ("prosemirror/model/node.py::Node.can_replace_with", ["from_", "to", "type", "marks"]),
    ("prosemirror/model/node.py::Node.can_append", ["other"]),
    ("prosemirror/model/schema.py::NodeType.valid_content", ["content"]),
    ("prosemirror/model/content.py::ContentMatch.match_fragment", ["frag", "start", "end"]),
]


def rule_rc_dep(prog: Program, report: Report) -> None:
    """Every answer of a validity predicate other than the literal False must
    depend (through its value or the conditions that dominate it) on every
    parameter that the definition of validity mentions; a fast path that
    answers without looking at `start`/`end` is wrong for the inputs where
    they matter."""
    report.rules.append("RC-dep")
    for key, params in RC_TABLE:
        fn = prog.func(key)
        v = view(prog, key)
        rets = [r for r in v.find(lambda n: isinstance(n, ast.Return))]
        if not rets:
            raise AnalysisError(f"RC-dep: {key} has no return")
        for r in rets:
            if r.value is None or (isinstance(r.value, ast.Constant) and r.value.value in (False, None)):
                continue
            seeds = {x.id for x in ast.walk(r.value) if isinstance(x, ast.Name)}
            rn = v.cfg.node_for(r)
            for cn in v.cfg.nodes:
                # every test evaluated before this return on some path can decide for or against it
                if cn.kind == "cond" and cn.node is not None and rn is not None and v.cfg.reaches(cn, rn):
                    seeds |= {x.id for x in ast.walk(cn.node) if isinstance(x, ast.Name)}
            # a return after a loop also depends on the loop's own tests (they returned False)
            for loop in v.find(lambda n: isinstance(n, (ast.For, ast.While))):
                if loop.end_lineno < r.lineno:
                    seeds |= {x.id for x in ast.walk(loop) if isinstance(x, ast.Name)}
            deps = _closure(fn.node, seeds)
            missing = [p for p in params if p not in deps]
            text = " ".join(src(r).split())[:80]
            if missing:
                report.violate("RC-dep", fn, r, f"`{text}` ignores {missing}", f"this answer of {fn.qual} does not depend on parameter(s) {missing}: neither its value nor any condition that dominates it reads them, so the predicate answers the same for every value of them", witness=[f"depends on: {sorted(d for d in deps if d in set(fn.params()))}"], what=f"every non-False answer of {fn.qual} depends on {params}")
            else:
                report.ob("RC-dep", key, f"`{text}` depends on all of {params}")


# ------------------------------------------------------------------ RM-merge
def rule_merge_slices(prog: Program, report: Report) -> None:
    """In ReplaceStep.merge a merged slice Slice(A.content.append(B.content), X.open_start, Y.open_end)
    takes its open_start from the step whose content comes first (X == A) and its
    open_end from the one appended (Y == B); the glued sides A.open_end and
    B.open_start are tested falsy."""
    report.rules.append("RM-merge")
    key = "prosemirror/transform/replace_step.py::ReplaceStep.merge"
    v = view(prog, key)
    n = 0
    for c in v.find(lambda n: isinstance(n, ast.Call) and isinstance(n.func, ast.Name) and n.func.id == "Slice" and len(n.args) == 3):
        a0 = c.args[0]
        if not (isinstance(a0, ast.Call) and isinstance(a0.func, ast.Attribute) and a0.func.attr == "append" and len(a0.args) == 1):
            continue
        A = src(a0.func.value)
        B = src(a0.args[0])
        if not (A.endswith(".slice.content") and B.endswith(".slice.content")):
            raise AnalysisError(f"RM-merge: unrecognised merged content `{src(a0)}`")
        a, b = A[: -len(".slice.content")], B[: -len(".slice.content")]
        n += 1
        want = (f"{a}.slice.open_start", f"{b}.slice.open_end")
        got = (src(c.args[1]), src(c.args[2]))
        if got != want:
            report.violate("RM-merge", v.fn, c, f"merged slice sides {got}", f"the merged content is {a}'s followed by {b}'s, so the merged slice must be open like {a} at the start and like {b} at the end: expected {want}, found {got} (the guards force the other two sides to 0, so the merged slice silently loses its open sides)", what="merged slice keeps the outer open sides")
            continue
        facts = v.guards(c)
        need = [f"falsy({a}.slice.open_end)", f"falsy({b}.slice.open_start)"]
        miss = [x for x in need if x not in facts]
        if miss:
            report.violate("RM-merge", v.fn, c, "glued slice sides not tested", f"concatenating {a}'s and {b}'s content is only a merge when the glued sides are closed; missing {miss}", what="glued sides are closed")
        else:
            report.ob("RM-merge", key, f"Slice({a}+{b}): open_start from {a}, open_end from {b}, glued sides tested closed")
    report.expect_at_least("RM-merge", "merged slice constructions", n, 2)


# ------------------------------------------------------------------------ RP
FITTER = "prosemirror/transform/replace.py"


def rule_rp_fitter(prog: Program, report: Report) -> None:
    """Fitter: `placed` and `frontier[d].match` are parallel state ("match =
    state after everything placed at depth d").  Every placed-update at depth D
    is paired, on every path, with an assignment to the match of the frontier
    item at D (unless level D was just popped); every frontier item pushed for
    a node carries the match state after that node's content."""
    report.rules.append("RP-fitter")
    n_pl = 0
    n_push = 0
    for fn in prog.all_funcs():
        if fn.module.rel != FITTER or fn.cls is None or fn.cls.name != "Fitter":
            continue
        v = view(prog, fn.key)
        # aliases: top = self.frontier[self.depth]
        alias: dict[str, str] = {}
        for a in v.find(lambda n: isinstance(n, ast.Assign)):
            if len(a.targets) == 1 and isinstance(a.targets[0], ast.Name) and isinstance(a.value, ast.Subscript) and src(a.value.value) == "self.frontier":
                alias[a.targets[0].id] = src(a.value.slice)
        match_assigns: dict[str, list] = {}
        for a in v.find(lambda n: isinstance(n, ast.Assign)):
            for t in a.targets:
                if isinstance(t, ast.Attribute) and t.attr == "match":
                    d = None
                    if isinstance(t.value, ast.Subscript) and src(t.value.value) == "self.frontier":
                        d = src(t.value.slice)
                    elif isinstance(t.value, ast.Name) and t.value.id in alias:
                        d = alias[t.value.id]
                    if d is not None:
                        match_assigns.setdefault(d, []).append(v.cfg.node_for(a))
        has_pop = any(isinstance(c, ast.Call) and src(c.func) == "self.frontier.pop" for c in v.find(lambda n: isinstance(n, ast.Call)))
        for a in v.find(lambda n: isinstance(n, ast.Assign)):
            if not (len(a.targets) == 1 and src(a.targets[0]) == "self.placed" and isinstance(a.value, ast.Call) and src(a.value.func) == "add_to_fragment" and len(a.value.args) == 3):
                continue
            n_pl += 1
            D = src(a.value.args[1])
            text = " ".join(src(a).split())[:90]
            if D == "len(self.frontier)" and has_pop:
                report.ob("RP-fitter", fn.key, f"`{text}`: level {D} was just popped - no frontier match to keep")
                continue
            nodes = [x for x in match_assigns.get(D, []) if x is not None]
            an = v.cfg.node_for(a)
            before = bool(nodes) and v.cfg.must_pass(an, nodes)
            after = bool(nodes) and not v.cfg.reaches(an, v.cfg.exit, avoid=nodes)
            if before or after:
                report.ob("RP-fitter", fn.key, f"`{text}` is paired with an update of frontier[{D}].match on every path")
            else:
                report.violate("RP-fitter", fn, a, f"`{text}` without advancing frontier[{D}].match", f"content is added to `placed` at depth {D} but the match state of that frontier level is not updated on every path: the next node opened at this level asks a stale match (the port turns upstream's silent null into `assert top_match is not None`)", what="placed/match pairing")
        for c in v.find(lambda n: isinstance(n, ast.Call) and isinstance(n.func, ast.Name) and n.func.id == "_FrontierItem" and len(n.args) == 2):
            n_push += 1
            m = src(c.args[1])
            creates_with_content = any(isinstance(x, ast.Call) and isinstance(x.func, ast.Attribute) and x.func.attr == "create" and len(x.args) >= 2 for x in v.find(lambda n: isinstance(n, ast.Call)))
            if ".content_match_at(" in m:
                report.ob("RP-fitter", fn.key, f"`{src(c)[:80]}`: match state taken after the node's content")
            elif m.endswith(".content_match") and not creates_with_content:
                report.ob("RP-fitter", fn.key, f"`{src(c)[:80]}`: node created without content, initial match state")
            else:
                report.violate("RP-fitter", fn, c, f"`{src(c)[:80]}` starts at the wrong match state", "the frontier item pushed for a node must carry the match state after that node's content (`node.content_match_at(k)`); this function creates the node with content but pushes the type's initial state", what="frontier push carries the match after the node's content")
    report.count("RP placed updates", n_pl)
    report.count("RP frontier pushes", n_push)
    report.expect_at_least("RP-fitter", "placed updates", n_pl, 4)
    report.expect_at_least("RP-fitter", "frontier pushes", n_push, 3)


def rule_rp_add_step(prog: Program, report: Report) -> None:
    """Transform.add_step keeps docs/steps/maps aligned: one append each, the
    old doc recorded before self.doc is replaced, the map of the same step."""
    report.rules.append("RP-add_step")
    key = "prosemirror/transform/transform.py::Transform.add_step"
    fn = prog.func(key)
    body = [s for s in fn.node.body if not (isinstance(s, ast.Expr) and isinstance(s.value, ast.Constant))]
    from ..norm import Resolver
    from ..rules.rn import _inline_locals

    body = [s_ for s_ in _inline_locals(fn.node, body)]
    texts = [" ".join(src(s).split()) for s in body]
    step, doc = fn.params()[1], fn.params()[2]
    want = [f"self.docs.append(self.doc)", f"self.steps.append({step})", f"self.mapping.append_map({step}.get_map())", f"self.doc = {doc}"]
    nested = [" ".join(src(x).split()) for s_ in body if not isinstance(s_, (ast.Expr, ast.Assign)) for x in ast.walk(s_) if isinstance(x, (ast.Expr, ast.Assign))]
    for w in want:
        if w in nested and w not in texts:
            report.violate("RP-add_step", fn, fn.node, f"`{w}` is executed only under a condition", f"add_step must record the old document, the step and the step's own map unconditionally, once each: docs[i], steps[i] and mapping.maps[i] belong together (a skipped map shifts every later index, so mapping.maps[i] is no longer step i's map)", what="history arrays stay aligned")
    if any(f.rule == "RP-add_step" for f in report.findings):
        return
    if any(not isinstance(s_, (ast.Expr, ast.Assign)) for s_ in body):
        # extra control flow that does not touch the four recording statements is tolerated
        body = [s_ for s_ in body if isinstance(s_, (ast.Expr, ast.Assign))]
        texts = [" ".join(src(s_).split()) for s_ in body]
    for w in want:
        c = texts.count(w)
        if c == 1:
            report.ob("RP-add_step", key, f"exactly one `{w}`")
        else:
            report.violate("RP-add_step", fn, fn.node, f"`{w}` occurs {c} times", f"add_step must record the old document, the step and the step's own map exactly once each (found {texts})", what="history arrays stay aligned")
    if texts.count(want[0]) == 1 and texts.count(want[3]) == 1 and texts.index(want[0]) > texts.index(want[3]):
        report.violate("RP-add_step", fn, fn.node, "old document recorded after self.doc was replaced", "docs[i] must be the document before steps[i]", what="docs.append precedes self.doc = doc")
    extra = [t for t in texts if t not in want]
    for t in extra:
        report.note(f"RP-add_step: additional statement `{t}`")


# ------------------------------------------------------------------------ RQ
def rule_rq(prog: Program, report: Report) -> None:
    """Raise discipline: every `raise` reachable from a Step.apply / from_json /
    Node.replace / Node.slice constructs a ValueError-family exception.
    Reachable asserts are enumerated (not armed)."""
    from ..callgraph import callgraph

    report.rules.append("RQ")
    cg = callgraph(prog)
    tm = prog.types
    roots = [k for k in prog.funcs if (k.endswith(".apply") or k.endswith(".from_json")) and "/transform/" in k]
    roots += ["prosemirror/model/node.py::Node.replace", "prosemirror/model/node.py::Node.slice", "prosemirror/model/node.py::Node.from_json", "prosemirror/model/replace.py::Slice.from_json", "prosemirror/model/mark.py::Mark.from_json", "prosemirror/model/fragment.py::Fragment.from_json"]
    for r in roots:
        prog.func(r)
    reach = cg.reachable(roots)
    value_errors = {"ValueError", "ReplaceError", "TransformError", "UnicodeDecodeError", "UnicodeEncodeError", "json.JSONDecodeError"}
    # classes deriving from ValueError in the package
    for key, (m, c) in prog.classes.items():
        if any(src(b) in value_errors for b in c.bases):
            value_errors.add(c.name)
    n_raise = 0
    asserts = []
    for k in sorted(reach):
        fn = prog.funcs[k]
        if not prog.in_scope(fn.module.rel):
            continue
        for n in walk_own(fn.node):
            if isinstance(n, ast.Assert):
                asserts.append(f"{k}:{n.lineno}: assert {src(n.test)[:60]}")
            if isinstance(n, ast.Raise) and n.exc is not None:
                n_raise += 1
                exc = n.exc.func if isinstance(n.exc, ast.Call) else n.exc
                name = src(exc)
                if name.split(".")[-1] in value_errors:
                    report.ob("RQ", k, f"raises {name} (ValueError family)")
                else:
                    report.violate("RQ", fn, n, f"raise {name}", f"`{' '.join(src(n).split())[:70]}` is reachable from a step's apply/from_json or from Node.replace/slice but {name} is not a ValueError: callers that handle the documented failure (a failed result or a ValueError-family exception) die with an internal error instead", what="reachable raises are ValueError-family")
    report.xref["RQ reachable asserts (enumerated, not armed: whether a port-added assert can fail is a run-time fact)"] = asserts
    report.count("RQ roots", len(roots))
    report.count("RQ reachable functions", len(reach))
    report.count("RQ reachable raise statements", n_raise)
    report.count("RQ reachable asserts (not armed)", len(asserts))
    report.expect_at_least("RQ", "reachable raise statements", n_raise, 10)


# ----------------------------------------------------------------------- RT3
def rule_rt3(prog: Program, report: Report) -> None:
    """`p or default` / `if not p` on an Optional[int] parameter treats the
    legitimate value 0 like "not given" (P1 truthiness); the default must be
    selected with `is None`.  `p or 0` is exempt (0 stays 0)."""
    report.rules.append("RT3")
    tm = prog.types
    n = 0
    for fn in prog.all_funcs():
        params = set(fn.params())
        for node in walk_own(fn.node):
            cand = None
            if isinstance(node, ast.BoolOp) and isinstance(node.op, ast.Or) and len(node.values) == 2 and isinstance(node.values[0], ast.Name) and node.values[0].id in params:
                d = node.values[1]
                if not (isinstance(d, ast.Constant) and d.value == 0):
                    cand = node.values[0]
            if cand is None:
                continue
            names = tm.instance_names(fn.module, cand)
            if set(names) == {"builtins.int", "None"}:
                n += 1
                report.violate("RT3", fn, node, f"`{src(node)[:60]}` on an Optional[int] parameter", f"`{cand.id}` may legitimately be 0 (a position / depth / index); `{src(node)[:60]}` replaces 0 by the default as if the argument had not been given - test `is None` instead", what="defaults of Optional[int] parameters are selected with `is None`")
    for fn in prog.all_funcs():
        params = set(fn.params())
        for a, site in truth_tests(fn.node):
            if isinstance(a, ast.Name) and a.id in params and isinstance(site, ast.If) and isinstance(site.test, ast.UnaryOp) and site.test.operand is a:
                names = tm.instance_names(fn.module, a)
                if set(names) == {"builtins.int", "None"}:
                    # `if not p: p = <default>`
                    if any(isinstance(x, ast.Assign) and any(isinstance(t, ast.Name) and t.id == a.id for t in x.targets) for x in site.body):
                        n += 1
                        report.violate("RT3", fn, site, f"`if not {a.id}:` selects a default for an Optional[int] parameter", f"`{a.id}` may legitimately be 0; `if not {a.id}` treats 0 like None", what="defaults of Optional[int] parameters are selected with `is None`")
    report.ob("RT3", "package", "no Optional[int] parameter has its default selected by truthiness (0 is a legitimate position)")
    report.count("RT3 truthiness-defaulted Optional[int] parameters", n)


# ------------------------------------------------------------------- RF-copy
def rule_copy_fresh(prog: Program, report: Report) -> None:
    """Mapping.copy returns a Mapping whose `maps` and `mirror` lists are new
    lists: appending to the copy (or to the source) must not show in the other."""
    from .rl import _is_fresh_expr

    report.rules.append("RF-copy")
    MAP = "prosemirror/transform/map.py"
    key = f"{MAP}::Mapping.copy"
    fn = prog.func(key)

    def fresh_or_none(e: ast.expr) -> bool:
        if isinstance(e, ast.Constant) and e.value is None:
            return True
        if isinstance(e, ast.IfExp):
            return fresh_or_none(e.body) and fresh_or_none(e.orelse)
        return _is_fresh_expr(e)

    def fields_of_call(c: ast.expr, owner: Func, depth: int = 0) -> dict[str, bool] | None:
        """{maps: fresh?, mirror: fresh?} of a Mapping-valued expression."""
        if isinstance(c, ast.Call) and isinstance(c.func, ast.Name) and c.func.id == "Mapping":
            args = list(c.args) + [None, None]
            kw = {k.arg: k.value for k in c.keywords}
            a0 = kw.get("maps", args[0])
            a1 = kw.get("mirror", args[1])
            from ..norm import Resolver

            res_ = Resolver(owner.node)
            a0 = res_.expr(a0, 2) if a0 is not None else None  # `maps = self.maps[:]` introduced as a local
            a1 = res_.expr(a1, 2) if a1 is not None else None
            return {"maps": a0 is None or fresh_or_none(a0), "mirror": a1 is None or fresh_or_none(a1)}
        if isinstance(c, ast.Call) and isinstance(c.func, ast.Attribute) and isinstance(c.func.value, ast.Name) and c.func.value.id == "self" and depth < 2:
            k2 = f"{MAP}::Mapping.{c.func.attr}"
            if prog.has_func(k2):
                callee = prog.func(k2)
                res = [fields_of_call(r.value, callee, depth + 1) for r in walk_own(callee.node) if isinstance(r, ast.Return) and r.value is not None]
                if res and all(x is not None for x in res):
                    return {"maps": all(x["maps"] for x in res), "mirror": all(x["mirror"] for x in res)}  # type: ignore[index]
        return None

    rets = [r for r in walk_own(fn.node) if isinstance(r, ast.Return) and r.value is not None]
    if not rets:
        raise AnalysisError("RF-copy: Mapping.copy has no return")
    for r in rets:
        v = r.value
        fields = None
        if isinstance(v, ast.Name):
            defs = [a for a in walk_own(fn.node) if isinstance(a, ast.Assign) and len(a.targets) == 1 and isinstance(a.targets[0], ast.Name) and a.targets[0].id == v.id]
            if len(defs) == 1:
                fields = fields_of_call(defs[0].value, fn)
                if fields is not None:
                    for a in walk_own(fn.node):
                        if isinstance(a, ast.Assign) and len(a.targets) == 1 and isinstance(a.targets[0], ast.Attribute) and isinstance(a.targets[0].value, ast.Name) and a.targets[0].value.id == v.id and a.targets[0].attr in fields:
                            fields[a.targets[0].attr] = fresh_or_none(a.value)
        else:
            fields = fields_of_call(v, fn)
        if fields is None:
            raise AnalysisError(f"RF-copy: cannot see how Mapping.copy builds its result (`{src(v)[:60]}`)")
        bad = [k for k, ok in fields.items() if not ok]
        if bad:
            report.violate("RF-copy", fn, r, f"Mapping.copy shares {bad} with its source", f"the returned mapping's {bad} list(s) are the source's own list object(s): appending a map or registering a mirror on one side changes the other (a mapping being appended to is the only thing allowed to change, and only itself)", what="Mapping.copy copies maps and mirror")
        else:
            report.ob("RF-copy", key, "the copy gets new `maps` and `mirror` lists")


# -------------------------------------------------------------------- RG-nfa
def rule_nfa_loops(prog: Program, report: Report) -> None:
    """Thompson construction: a repetition loops back on a state of its own.
    `connect(compile(E, S), S)` makes S the loop state; every definition of S
    that reaches the call must be a fresh `node()` - if S may still be the
    incoming state `from_` (shared with the alternatives of an enclosing choice
    or the continuation of an enclosing repetition) the repeated body leaks
    into its context (`a | b{0,}` would accept `b a`)."""
    from .rf import Fresh

    report.rules.append("RG-nfa")
    key = "prosemirror/model/content.py::nfa.compile"
    fn = prog.func(key)
    fr = Fresh(prog, set())
    n = 0
    for c in walk_own(fn.node):
        if not (isinstance(c, ast.Call) and isinstance(c.func, ast.Name) and c.func.id == "connect" and len(c.args) == 2):
            continue
        body, target = c.args
        if not (isinstance(body, ast.Call) and isinstance(body.func, ast.Name) and body.func.id == "compile" and len(body.args) == 2):
            continue
        if not (isinstance(target, ast.Name) and isinstance(body.args[1], ast.Name) and body.args[1].id == target.id):
            continue  # not a loop-back edge
        n += 1
        defs = fr.reaching(fn, target.id, c)
        text = " ".join(src(c).split())
        if defs is None:
            if target.id in fn.params():
                defs = [ast.Name(id="<parameter>", ctx=ast.Load())]
            else:
                raise AnalysisError(f"RG-nfa: cannot determine the definitions of `{target.id}` reaching `{text}`")
        def is_node_call(d: ast.AST, depth: int = 0) -> bool:
            if isinstance(d, ast.Call) and isinstance(d.func, ast.Name) and d.func.id == "node":
                return True
            if isinstance(d, ast.Name) and depth < 2 and d.id not in fn.params():
                from .rf import _local_defs

                ds = _local_defs(fn.node, d.id)
                return bool(ds) and all(is_node_call(x, depth + 1) for x in ds)
            return False

        bad = [d for d in defs if not is_node_call(d)]
        if bad:
            report.violate("RG-nfa", fn, c, f"`{text}` may loop on a shared state", f"the loop state `{target.id}` can still be `{src(bad[0])}` here (definitions reaching the call: {[src(d) for d in defs]}); a repetition must loop on a state allocated for it with node(), otherwise after one iteration every other edge leaving that state is available again", what="repetition loops on its own state")
        else:
            report.ob("RG-nfa", key, f"`{text}`: loop state allocated by node()")
    report.count("RG-nfa loop-back edges", n)
    report.expect_at_least("RG-nfa", "loop-back edges", n, 3)


def rule_rec_guard(prog: Program, report: Report) -> None:
    """A directly recursive closure that walks a graph (automaton states)
    must test, before every recursive call, that the target was not visited:
    otherwise a cycle recurses forever (RecursionError at schema build)."""
    from ..gates import need_holds

    report.rules.append("RL-rec")
    n = 0
    GRAPH_WALKERS = (
        # closures that follow automaton edges (ContentMatch.next / NFA edge lists), which form cycles;
        # nfa.compile and matches_context.match recurse on a finite tree / a decreasing index instead
        "prosemirror/model/content.py::null_from.scan",
        "prosemirror/model/content.py::dfa.explore",
        "prosemirror/model/content.py::ContentMatch.__str__.scan",
        "prosemirror/model/content.py::ContentMatch.fill_before.search",
        "prosemirror/model/from_dom.py::mark_may_apply.scan",
    )
    for key in GRAPH_WALKERS:
        fn = prog.func(key)
        calls = [c for c in walk_own(fn.node) if isinstance(c, ast.Call) and isinstance(c.func, ast.Name) and c.func.id == fn.name]
        if not calls:
            continue
        v = view(prog, fn.key)
        for c in calls:
            n += 1
            text = " ".join(src(c).split())[:60]
            ok = need_holds(v, c, ["re:.* not in \\w+", "re:falsy\\(\\w+\\.get\\(.*\\)\\)"])
            if ok:
                report.ob("RL-rec", fn.key, f"`{text}` is guarded by a visited test")
            else:
                report.violate("RL-rec", fn, c, f"unguarded recursive call `{text}`", f"`{fn.qual}` walks a graph that can contain cycles (repetitions create back edges) and recurses here without testing that the target was already visited: a cycle through this edge recurses until RecursionError", what="recursive graph walks test a visited set before recursing")
    report.count("RL-rec recursive calls in graph-walking closures", n)
    report.expect_at_least("RL-rec", "recursive calls", n, 5)


# ----------------------------------------------------------------------- RT4
def _rt4_audited(fn, a: ast.expr, site: ast.AST) -> str | None:
    """Audited truthiness tests of Optional[int] values, recognised by what the value *is*
    (not by the name of a local):
    - `x or 0`: 0 and None both become 0;
    - the result of the recursive `find_diff_start(.., pos + 1)` scan: a reported inner position is
      >= 1 because the recursion starts one past `pos` (enforced by a Val entry of the gate table)."""
    from ..norm import Resolver

    if isinstance(site, ast.BoolOp) and isinstance(site.op, ast.Or) and isinstance(site.values[-1], ast.Constant) and site.values[-1].value == 0 and a in site.values[:-1]:
        return "`x or 0`: 0 and None both mean 0"
    if isinstance(site, ast.IfExp) and site.test is a and " ".join(src(site.body).split()) == " ".join(src(a).split()) and isinstance(site.orelse, ast.Constant) and site.orelse.value == 0:
        return "`x if x else 0`: 0 and None both mean 0"
    v = a.value if isinstance(a, ast.NamedExpr) else a
    if isinstance(v, ast.Name):
        v = Resolver(fn.node).expr(v, 1)
        if isinstance(v, ast.NamedExpr):
            v = v.value
    if fn.key == "prosemirror/model/diff.py::find_diff_start" and isinstance(v, ast.Call) and isinstance(v.func, ast.Name) and v.func.id == "find_diff_start" and len(v.args) == 3 and " ".join(src(v.args[2]).split()) in ("pos + 1", "1 + pos"):
        return "a reported inner position is >= 1: the recursive scan starts at pos + 1"
    return None


def rule_rt4(prog: Program, report: Report) -> None:
    """A value of static type `int | None` (a position, index or depth that may
    be absent) is not tested by truthiness: 0 is a legitimate position and would
    be taken for 'absent'."""
    report.rules.append("RT4")
    tm = prog.types
    n = 0
    for fn in prog.all_funcs():
        for a, site in truth_tests(fn.node):
            names = set(tm.instance_names(fn.module, a))
            if names != {"builtins.int", "None"}:
                continue
            n += 1
            why_ok = _rt4_audited(fn, a, site)
            if why_ok is not None:
                report.ob("RT4", fn.key, f"`{src(a)[:50]}` (int | None) tested by truthiness: audited - {why_ok}")
                continue
            report.violate("RT4", fn, a, f"`{src(a)[:50]}` of type int | None tested by truthiness", f"`{src(a)[:50]}` may be the integer 0 (position 0, index 0, depth 0), which the test treats like None (absent / deleted); compare with None instead", what="Optional[int] values are compared with None")
    report.count("RT4 truthiness tests of Optional[int] values", n)


def _safe_redundant(v, x) -> bool:  # noqa: ANN001
    from ..redundant import exit_is_redundant

    try:
        return exit_is_redundant(v, x)
    except (RecursionError, ValueError, KeyError, AttributeError, TypeError, SyntaxError):
        return False


# ---------------------------------------------------------------------------- RX-add
def _anchored_keys(prog: Program, pid: str) -> set[str]:
    """The functions the property's anchors name (by the tables or by name in the mechanism / observation
    texts, with their nested functions) - not every function of an anchored file: an exit added to
    `close()` says nothing about the JSON round trip although both live in replace.py."""
    import json
    import os

    here = os.path.dirname(os.path.abspath(__file__))
    fn2 = json.load(open(os.path.join(here, "fn2props.json")))
    # every function of a file the property's anchors name, plus the functions the tables anchor
    files: set[str] = set()
    words: set[str] = set()
    for line in open(os.path.join(os.path.dirname(os.path.dirname(here)), "properties.jsonl"), encoding="utf-8"):
        pr = json.loads(line)
        if pr["id"] == pid:
            an = pr.get("anchors", {})
            files = set(an.get("files", []))
            text = " ".join([m.get("where", "") + " " + m.get("name", "") for m in an.get("mechanism", [])] + list(an.get("observe_at", []) or []))
            words = set(re.findall(r"[A-Za-z_][A-Za-z0-9_]*", text))
    # the functions the property's anchors name (by the tables or by name in the mechanism / observation
    # texts, with their nested functions) - not every function of an anchored file: an exit added to
    # `close()` says nothing about the JSON round trip although both live in replace.py
    def named(f) -> bool:
        parts = f.qual.split(".")
        return f.module.rel in files and any(p_ in words for p_ in parts if not p_.startswith("__"))

    keys = {k for k, props in fn2.items() if pid in props} | {k for k, f in prog.funcs.items() if named(f)}
    # what an object prints as is no behaviour any of the properties speaks about
    return {k for k in keys if not any(part in ("__str__", "__repr__") for part in k.split("::")[-1].split("."))}


def rule_rx_added_exit(prog: Program, report: Report, pid: str) -> None:
    """An early exit was *added* to an anchored function: every statement and every test of the
    reviewed function is still there, word for word, and there is an additional `return` / `break` /
    `continue` / `raise`.  Nothing was removed or re-shaped, so this is not a restructuring of the
    reviewed code: the function now stops in cases where the reviewed code went on (a fast path, a
    shortcut for a "trivial" case, an extra refusal).  A refactoring that introduces a guard clause
    also removes or rewrites what the guard replaces and is not matched."""
    import json
    import os
    from collections import Counter

    from ..gates import _REVIEWED, _reviewed, view

    report.rules.append("RX-add")
    keys = _anchored_keys(prog, pid)
    n = 0
    for key in sorted(keys):
        if not prog.has_func(key):
            continue
        v = view(prog, key)
        rv = _reviewed(v)
        if rv is None or "stmts" not in rv:
            continue
        n += 1
        fn = v.fn
        stmts = [st for st in walk_own(fn.node) if isinstance(st, (ast.Assign, ast.AnnAssign, ast.AugAssign, ast.Expr, ast.Return, ast.Raise, ast.Break, ast.Continue, ast.Delete, ast.Assert)) and not (isinstance(st, ast.Expr) and isinstance(st.value, ast.Constant))]
        now = Counter(" ".join(src(st).split()) for st in stmts)
        tests_now = Counter([" ".join(src(st.test).split()) for st in walk_own(fn.node) if isinstance(st, (ast.If, ast.While))] + ["for " + " ".join(src(st.target).split()) + " in " + " ".join(src(st.iter).split()) for st in walk_own(fn.node) if isinstance(st, ast.For)])
        old, tests_old = Counter(rv["stmts"]), Counter(rv["tests"])
        if old - now or tests_old - tests_now:
            report.ob("RX-add", key, "the function differs from the reviewed one by more than additions (judged by the other rules)", nontrivial=False)
            continue
        extra = now - old
        from ..norm import shape_of

        if "shape" in rv and shape_of(fn.node) == rv["shape"]:
            # the control skeleton is the reviewed one up to exits that change nothing (a bare `return` /
            # `continue` where control would fall off the end of the function / iteration anyway)
            report.ob("RX-add", key, "no exit that changes the control skeleton was added")
            continue
        new_exits = [st for st in stmts if isinstance(st, (ast.Return, ast.Break, ast.Continue, ast.Raise)) and extra.get(" ".join(src(st).split()), 0) > 0]
        # attribute each surplus text to its last occurrences (the reviewed ones come first is not knowable: report all of that text once)
        seen: set[str] = set()
        flagged = False
        for st in new_exits:
            t = " ".join(src(st).split())
            if t in seen:
                continue
            seen.add(t)
            if isinstance(st, ast.Raise):
                # an added refusal: inputs the reviewed function accepted are now rejected (decoding / import /
                # an edit is no longer total).  There is nothing to prove redundant about a raise.
                par_ = parent_of(st)
                if isinstance(par_, ast.If) and " ".join(src(par_.test).split()) not in tests_old:
                    guards = sorted(v.guards(st, resolve=False))
                    report.violate("RX-add", fn, st, f"added refusal `{t[:60]}`", f"every statement and test of the reviewed {fn.qual} is unchanged, and `{t[:60]}` was added under the new condition `{' '.join(src(par_.test).split())[:80]}`: inputs the reviewed function handled are now rejected", what="no refusal is added to an otherwise unchanged anchored function")
                    flagged = True
                continue
            from ..redundant import exit_is_redundant

            same_text = [x for x in stmts if " ".join(src(x).split()) == t]
            cand = [x for x in same_text if isinstance(parent_of(x), ast.If) and not parent_of(x).orelse and parent_of(x).body[-1] is x and " ".join(src(parent_of(x).test).split()) not in tests_old]
            if cand and all(_safe_redundant(v, x) for x in cand):
                report.ob("RX-add", key, f"added `{t[:40]}` is redundant: under its condition the unchanged code performs no effect and ends the same way")
                continue
            st = cand[0] if cand else st
            guards = sorted(v.guards(st, resolve=False))
            report.violate("RX-add", fn, st, f"added early exit `{t[:60]}`", f"every statement and test of the reviewed {fn.qual} is unchanged, and `{t[:60]}` was added under {guards[:4]}: the function now stops there in cases where the reviewed code went on (nothing was removed, so this is not a restructuring)", what="no exit is added to an otherwise unchanged anchored function")
            flagged = True
        if not flagged:
            report.ob("RX-add", key, "no exit was added to the reviewed statements")
    report.count("RX-add anchored functions compared with their reviewed statements", n)


# ---------------------------------------------------------------------------- RX-guard
def rule_rx_guard(prog: Program, report: Report, pid: str) -> None:
    """A reviewed statement of an anchored function is performed in different cases: every statement
    and every test of the reviewed function is still there, word for word, no exit was added (RX-add
    judges those), and yet some statement has a different control context - it moved under a test
    (`add_range(to, None, ..)` indented into `if open_start:`), across a test whose branch leaves the
    iteration (`del_info |= ..` hoisted above the `continue` of the mirror shortcut), into or out of a
    loop, or a new test was wrapped around it.  The context is read off the CFG (dominating test
    outcomes, loops around, exits not dominated), so `else:` after a `return` and the like do not count."""
    import json
    import os
    from collections import Counter

    from ..gates import _reviewed, local_move_ok, stmt_contexts, view

    report.rules.append("RX-guard")
    n = 0
    for key in sorted(_anchored_keys(prog, pid)):
        if not prog.has_func(key):
            continue
        v = view(prog, key)
        rv = _reviewed(v)
        if rv is None or not rv.get("ctx"):
            continue
        fn = v.fn
        stmts = [st for st in walk_own(fn.node) if isinstance(st, (ast.Assign, ast.AnnAssign, ast.AugAssign, ast.Expr, ast.Return, ast.Raise, ast.Break, ast.Continue, ast.Delete, ast.Assert)) and not (isinstance(st, ast.Expr) and isinstance(st.value, ast.Constant))]
        now = Counter(" ".join(src(st).split()) for st in stmts)
        tests_now = Counter([" ".join(src(st.test).split()) for st in walk_own(fn.node) if isinstance(st, (ast.If, ast.While))] + ["for " + " ".join(src(st.target).split()) + " in " + " ".join(src(st.iter).split()) for st in walk_own(fn.node) if isinstance(st, ast.For)])
        old, tests_old = Counter(rv["stmts"]), Counter(rv["tests"])
        n += 1
        if old - now or tests_old - tests_now:
            report.ob("RX-guard", key, "the function differs from the reviewed one by more than moves and additions (judged by the other rules)", nontrivial=False)
            continue
        extra = now - old
        if any(isinstance(st, (ast.Return, ast.Break, ast.Continue, ast.Raise)) and extra.get(" ".join(src(st).split()), 0) > 0 for st in stmts):
            report.ob("RX-guard", key, "an exit was added (judged by RX-add)", nontrivial=False)
            continue
        try:
            ctx = stmt_contexts(v)
        except Exception:  # noqa: BLE001 - no CFG, nothing to compare
            continue
        flagged = False
        for text, olds in sorted(rv["ctx"].items()):
            nows = ctx.get(text, [])
            missing = Counter(olds) - Counter(nows)
            if not missing:
                continue
            surplus = Counter(nows) - Counter(olds)
            st = next((x for x in stmts if " ".join(src(x).split()) == text), None)
            if st is not None and len(olds) == 1 and len(nows) == 1 and local_move_ok(v, st, olds[0], nows[0]):
                report.ob("RX-guard", key, f"`{text[:40]}` moved towards its uses: where it no longer runs nothing reads what it stored")
                continue
            was = next(iter(missing))
            isnow = next(iter(surplus), "<not reached>")
            report.violate("RX-guard", fn, st or fn.node, f"`{text[:60]}` is performed in different cases", f"every statement and test of the reviewed {fn.qual} is unchanged, but `{text[:60]}` was reviewed [{was[:200]}] and is now [{isnow[:200]}]: it moved under / across a test or a loop, so it is skipped or repeated in cases where the reviewed code performed it once", what="the statements of an otherwise unchanged anchored function keep their control context")
            flagged = True
        if not flagged:
            report.ob("RX-guard", key, "every reviewed statement keeps its control context")
    report.count("RX-guard anchored functions compared with their reviewed control contexts", n)


# ---------------------------------------------------------------------------- RX-edit
_SIM_KINDS = (ast.Assign, ast.AnnAssign, ast.AugAssign, ast.Expr, ast.Return, ast.Raise, ast.Break, ast.Continue, ast.Delete, ast.Assert)
_CMP_FAMILY = {ast.Lt: "<", ast.LtE: "<=", ast.Gt: ">", ast.GtE: ">=", ast.Eq: "==", ast.NotEq: "!=", ast.Is: "is", ast.IsNot: "is not", ast.In: "in", ast.NotIn: "not in"}


def _edit_between(a: ast.AST, b: ast.AST) -> list[tuple[str, ast.AST, ast.AST]]:
    """Differences between two expression / statement trees of the same shape, as (kind, old, new):
    one entry per differing leaf or operator; a single ("shape", ..) entry where the shapes differ."""
    out: list[tuple[str, ast.AST, ast.AST]] = []

    def same(x: ast.AST, y: ast.AST) -> bool:
        return ast.dump(x) == ast.dump(y)

    def go(x: ast.AST, y: ast.AST) -> None:
        if len(out) > 3:
            return
        if type(x) is not type(y):
            # `not e` <-> `e`
            if isinstance(x, ast.UnaryOp) and isinstance(x.op, ast.Not) and same(x.operand, y):
                out.append(("not removed", x, y))
            elif isinstance(y, ast.UnaryOp) and isinstance(y.op, ast.Not) and same(y.operand, x):
                out.append(("not added", x, y))
            elif isinstance(x, ast.BoolOp) and len(x.values) == 2 and any(same(v_, y) for v_ in x.values):
                out.append(("operand dropped", x, y))
            elif isinstance(y, ast.Constant) and isinstance(y.value, bool) and not isinstance(x, ast.Constant):
                out.append(("forced", x, y))
            else:
                out.append(("shape", x, y))
            return
        if isinstance(x, ast.Constant):
            if type(x.value) is not type(y.value) or x.value != y.value:
                out.append(("constant", x, y))
            return
        if isinstance(x, ast.Name):
            if x.id != y.id:
                out.append(("name", x, y))
            return
        if isinstance(x, ast.Attribute):
            if x.attr != y.attr:
                out.append(("attribute", x, y))
            go(x.value, y.value)
            return
        if isinstance(x, ast.BoolOp):
            if len(x.values) == len(y.values) + 1 and len(y.values) >= 2 and type(x.op) is type(y.op):
                # one operand of a longer chain dropped
                for i in range(len(x.values)):
                    rest = x.values[:i] + x.values[i + 1 :]
                    if all(same(p_, q_) for p_, q_ in zip(rest, y.values)):
                        out.append(("operand dropped", x, y))
                        return
                out.append(("shape", x, y))
                return
            if type(x.op) is not type(y.op):
                out.append(("and/or", x, y))
        if isinstance(x, (ast.BinOp, ast.UnaryOp, ast.AugAssign)) and type(x.op) is not type(y.op):
            out.append(("operator", x, y))
        if isinstance(x, ast.Compare):
            if len(x.ops) != len(y.ops):
                out.append(("shape", x, y))
                return
            for i, (o1, o2) in enumerate(zip(x.ops, y.ops)):
                if type(o1) is not type(o2):
                    out.append(("comparison", x, y))
        for (na, va), (nb, vb) in zip(ast.iter_fields(x), ast.iter_fields(y)):
            if na in ("ctx", "op", "ops", "type_comment", "kind", "annotation"):
                continue
            if isinstance(va, list) and isinstance(vb, list):
                if len(va) != len(vb):
                    out.append(("shape", x, y))
                    return
                for p_, q_ in zip(va, vb):
                    if isinstance(p_, ast.AST) and isinstance(q_, ast.AST):
                        go(p_, q_)
                    elif p_ != q_:
                        out.append(("shape", x, y))
                        return
            elif isinstance(va, ast.AST) and isinstance(vb, ast.AST):
                go(va, vb)
            elif va != vb:
                out.append(("shape", x, y))
                return

    go(a, b)
    return out


def _base_init_has_effect(prog: Program, fn) -> bool:  # noqa: ANN001
    """Does some base class of the method's class (inside the package) define an `__init__` with a body?
    Unknown bases (outside the package, other than object / ABC helpers) count as having one."""
    cls_key = fn.key.rsplit(".", 1)[0]
    if cls_key not in prog.classes:
        return True
    todo, seen = [prog.classes[cls_key][1]], set()
    first = True
    while todo:
        c = todo.pop()
        if id(c) in seen:
            continue
        seen.add(id(c))
        if not first:
            for st in c.body:
                if isinstance(st, ast.FunctionDef) and st.name == "__init__":
                    body = [b for b in st.body if not (isinstance(b, ast.Expr) and isinstance(b.value, ast.Constant)) and not isinstance(b, ast.Pass)]
                    if body:
                        return True
        first = False
        for b in c.bases:
            name = b.id if isinstance(b, ast.Name) else (b.attr if isinstance(b, ast.Attribute) else None)
            if name in ("object", "ABC", "Generic", "Protocol") or name is None and isinstance(b, ast.Subscript):
                continue
            cands = [v_[1] for k_, v_ in prog.classes.items() if k_.split("::")[-1] == name]
            if not cands:
                return True
            todo.extend(cands)
    return False


def rule_rx_edit(prog: Program, report: Report, pid: str) -> None:
    """One statement or one test of an anchored function computes something else and the rest of the
    function is the reviewed one, word for word: a literal with another value, `+` for `-`, `and` for
    `or`, a comparison operator that relates other pairs (`<` for `<=`, `==` for `!=`), a `not` added or
    removed, an operand of a condition dropped, a test replaced by a constant, a sibling attribute or
    another variable read instead, or a live statement deleted.  A refactoring re-writes more than one
    token (and the spelling of a value does not matter: the comparison is on the syntax tree, `0xFFFF`
    is 65535); a single token that changes what an expression denotes is not a re-writing of it.
    Renamed variables (the old name is gone, the new one is new), aliases that resolve to the same
    expression, `is` / `==` against None, and typing-only changes are recognised as spellings."""
    from collections import Counter

    from ..gates import _reviewed, view
    from .rn import canon

    report.rules.append("RX-edit")
    n = 0
    for key in sorted(_anchored_keys(prog, pid)):
        if not prog.has_func(key):
            continue
        v = view(prog, key)
        rv = _reviewed(v)
        if rv is None or "stmts" not in rv:
            continue
        fn = v.fn
        stmts = [st for st in walk_own(fn.node) if isinstance(st, _SIM_KINDS) and not (isinstance(st, ast.Expr) and isinstance(st.value, ast.Constant))]
        s_now = Counter(" ".join(src(st).split()) for st in stmts)
        tnodes = [st for st in walk_own(fn.node) if isinstance(st, (ast.If, ast.While))]
        fnodes = [st for st in walk_own(fn.node) if isinstance(st, ast.For)]
        t_now = Counter([" ".join(src(st.test).split()) for st in tnodes] + ["for " + " ".join(src(st.target).split()) + " in " + " ".join(src(st.iter).split()) for st in fnodes])
        s_old, t_old = Counter(rv["stmts"]), Counter(rv["tests"])
        gone_s, new_s = list((s_old - s_now).elements()), list((s_now - s_old).elements())
        gone_t, new_t = list((t_old - t_now).elements()), list((t_now - t_old).elements())
        n += 1
        if not (gone_s or new_s or gone_t or new_t):
            report.ob("RX-edit", key, "every statement and test is the reviewed one")
            continue
        names_now = {x.id for x in ast.walk(fn.node) if isinstance(x, ast.Name)} | {a.arg for a in ast.walk(fn.node) if isinstance(a, ast.arg)}

        def locate(text: str) -> ast.AST:
            for st in stmts:
                if " ".join(src(st).split()) == text:
                    return st
            for st in tnodes:
                if " ".join(src(st.test).split()) == text:
                    return st
            for st in fnodes:
                if "for " + " ".join(src(st.target).split()) + " in " + " ".join(src(st.iter).split()) == text:
                    return st
            return fn.node

        def parse(text: str) -> ast.AST | None:
            try:
                if text.startswith("for ") and " in " in text:
                    return ast.parse(text + ":\n pass").body[0]
                if text in ("break", "continue") or text.startswith(("return", "raise")):
                    return ast.parse("def _f():\n for _ in ():\n  " + text).body[0].body[0].body[0]  # type: ignore[attr-defined]
                return ast.parse(text).body[0]
            except SyntaxError:
                return None

        # ---- a single deleted statement
        if len(gone_s) == 1 and not new_s and not gone_t and not new_t:
            text = gone_s[0]
            old = parse(text)
            verdict = None
            if isinstance(old, ast.Expr) and text == "super().__init__()" and not _base_init_has_effect(prog, fn):
                verdict = None  # object.__init__ / an empty base initialiser
            elif isinstance(old, ast.Expr) and any(isinstance(x, (ast.Call, ast.Await, ast.Yield, ast.YieldFrom)) for x in ast.walk(old)):
                verdict = "the call it made is no longer made"
            elif isinstance(old, (ast.Assign, ast.AugAssign, ast.AnnAssign)) and getattr(old, "value", None) is not None:
                tg = old.targets if isinstance(old, ast.Assign) else [old.target]
                flat = [y for t_ in tg for y in (t_.elts if isinstance(t_, (ast.Tuple, ast.List)) else [t_])]
                if any(not isinstance(t_, ast.Name) for t_ in flat):
                    verdict = "the field / element it stored is no longer stored"
                else:
                    live = [t_.id for t_ in flat if any(isinstance(x, ast.Name) and x.id == t_.id and isinstance(x.ctx, ast.Load) for x in ast.walk(fn.node)) or any(isinstance(x, (ast.Nonlocal, ast.Global)) and t_.id in x.names for x in ast.walk(fn.node))]
                    uses = (rv.get("uses") or {}).get(text)
                    if live and uses is not None and min(uses) == 0:
                        live = []  # an occurrence of this text stored a value nothing read (a dead initialisation)
                    if live:
                        verdict = f"`{live[0]}` is still read but no longer updated there"
            elif isinstance(old, (ast.Return, ast.Raise, ast.Break, ast.Continue)):
                from ..norm import shape_of

                if "shape" not in rv or shape_of(fn.node) != rv["shape"]:
                    verdict = "the exit it took is no longer taken"
            elif isinstance(old, (ast.Delete, ast.Assert)):
                verdict = None
            if verdict:
                report.violate("RX-edit", fn, fn.node, f"`{text[:70]}` was deleted", f"every other statement and every test of the reviewed {fn.qual} is unchanged, and `{text[:80]}` is gone: {verdict}", what="no live statement is deleted from an otherwise unchanged anchored function")
            else:
                report.ob("RX-edit", key, f"deleted `{text[:40]}` had no effect the function still uses")
            continue
        # ---- a single rewritten statement or test
        pair = None
        if len(gone_s) == 1 and len(new_s) == 1 and not gone_t and not new_t:
            pair = (gone_s[0], new_s[0])
        elif len(gone_t) == 1 and len(new_t) == 1 and not gone_s and not new_s:
            pair = (gone_t[0], new_t[0])
        if pair is None:
            report.ob("RX-edit", key, "the function differs from the reviewed one in more than one place (judged by the other rules)", nontrivial=False)
            continue
        a, b = parse(pair[0]), parse(pair[1])
        if a is None or b is None:
            continue
        if gone_t and rv.get("ctx"):
            # a test re-written together with its branches (negated and the branches exchanged): every
            # statement is still performed under the same canonical facts
            from ..gates import stmt_contexts

            try:
                comp = locate(pair[1])
                inside = {" ".join(src(x).split()) for x in ast.walk(comp) if isinstance(x, _SIM_KINDS) and not (isinstance(x, ast.Expr) and isinstance(x.value, ast.Constant))} if isinstance(comp, (ast.If, ast.While)) else set()
                ctx_now = stmt_contexts(v)
                if inside and all(ctx_now.get(t_) == rv["ctx"].get(t_) for t_ in inside):
                    report.ob("RX-edit", key, f"the test `{pair[1][:50]}` is the reviewed `{pair[0][:50]}` with its branches exchanged: every statement keeps its control context")
                    continue
            except Exception:  # noqa: BLE001
                pass
        eds = _edit_between(a, b)
        if len(eds) != 1 or eds[0][0] == "shape":
            report.ob("RX-edit", key, "the rewritten statement differs by more than one token (judged by the other rules)", nontrivial=False)
            continue
        kind, x, y = eds[0]
        at = locate(pair[1])
        why = None
        if kind == "constant":
            why = f"the literal {x.value!r} became {y.value!r}"  # type: ignore[attr-defined]
            # typing-only: a string annotation inside cast(...)
            if isinstance(x.value, str) or isinstance(y.value, str):  # type: ignore[attr-defined]
                if canon(a) == canon(b):  # type: ignore[arg-type]
                    why = None
        elif kind == "operator":
            why = f"the operator {type(x.op).__name__} became {type(y.op).__name__}"  # type: ignore[attr-defined]
        elif kind == "and/or":
            why = "`and` and `or` were exchanged"
        elif kind == "comparison":
            ops = [(o1, o2, l, r) for o1, o2, l, r in zip(x.ops, y.ops, [x.left] + x.comparators, x.comparators) if type(o1) is not type(o2)]  # type: ignore[attr-defined]
            o1, o2, l_, r_ = ops[0]
            none_like = any(isinstance(z, ast.Constant) and z.value is None for z in (l_, r_))
            if none_like and {type(o1), type(o2)} in ({ast.Is, ast.Eq}, {ast.IsNot, ast.NotEq}):
                why = None
            else:
                why = f"the comparison `{_CMP_FAMILY.get(type(o1), '?')}` became `{_CMP_FAMILY.get(type(o2), '?')}`"
        elif kind in ("not removed", "not added"):
            why = "a `not` was " + kind.split()[1]
        elif kind == "operand dropped":
            why = f"an operand of `{' '.join(src(x).split())[:60]}` was dropped"
        elif kind == "forced":
            why = f"`{' '.join(src(x).split())[:60]}` was replaced by the constant {y.value}"  # type: ignore[attr-defined]
        elif kind == "attribute":
            why = f"`.{x.attr}` became `.{y.attr}`"  # type: ignore[attr-defined]
        elif kind == "name":
            old_id, new_id = x.id, y.id  # type: ignore[attr-defined]
            if new_id not in rv.get("names", []) and old_id not in names_now:
                why = None  # renamed
            elif canon(v.res.expr(ast.Name(id=old_id, ctx=ast.Load()), 4)) == canon(v.res.expr(ast.Name(id=new_id, ctx=ast.Load()), 4)) and old_id in names_now:
                why = None  # an alias of the same expression
            elif isinstance(x.ctx, ast.Store) or isinstance(y.ctx, ast.Store):  # type: ignore[attr-defined]
                why = None  # an assignment target: a renamed / split local, judged by the value rules
            else:
                why = f"`{old_id}` was replaced by `{new_id}`"
        if why is None or canon(a) == canon(b):  # type: ignore[arg-type]
            report.ob("RX-edit", key, f"`{pair[1][:50]}` is another spelling of the reviewed `{pair[0][:50]}`")
            continue
        report.violate("RX-edit", fn, at, f"`{pair[0][:70]}` became `{pair[1][:70]}`", f"every other statement and test of the reviewed {fn.qual} is unchanged, and in this one {why}: the expression denotes something else, and one changed token is not a re-writing of the function", what="no single token of an otherwise unchanged anchored function changes what its expression denotes")
    report.count("RX-edit anchored functions compared token by token with their reviewed statements", n)


# ---------------------------------------------------------------------------- RK-const / RD-default
def _const_value(text: str):  # noqa: ANN202
    """Value of a constant spelling: numbers, strings, arithmetic on them, frozenset/set/tuple of
    literals, `"a b".split()`, re.compile(<literal>) (as ("re", pattern, flags)).  ValueError otherwise."""
    def ev(e: ast.AST):  # noqa: ANN202
        if isinstance(e, ast.Constant):
            return e.value
        if isinstance(e, (ast.Tuple, ast.List)):
            return tuple(ev(x) for x in e.elts)
        if isinstance(e, ast.Set):
            return frozenset(ev(x) for x in e.elts)
        if isinstance(e, ast.UnaryOp) and isinstance(e.op, (ast.USub, ast.UAdd, ast.Invert)):
            v = ev(e.operand)
            return -v if isinstance(e.op, ast.USub) else (+v if isinstance(e.op, ast.UAdd) else ~v)
        if isinstance(e, ast.BinOp) and isinstance(e.op, (ast.Add, ast.Sub, ast.Mult, ast.Pow, ast.LShift, ast.RShift, ast.BitOr, ast.BitAnd, ast.FloorDiv)):
            a, b = ev(e.left), ev(e.right)
            if not all(isinstance(x, (int, str)) for x in (a, b)) or (isinstance(e.op, ast.Pow) and (not isinstance(b, int) or abs(b) > 64)):
                raise ValueError("operand")
            import operator as _o

            return {ast.Add: _o.add, ast.Sub: _o.sub, ast.Mult: _o.mul, ast.Pow: _o.pow, ast.LShift: _o.lshift, ast.RShift: _o.rshift, ast.BitOr: _o.or_, ast.BitAnd: _o.and_, ast.FloorDiv: _o.floordiv}[type(e.op)](a, b)
        if isinstance(e, ast.Call) and isinstance(e.func, ast.Name) and e.func.id in ("frozenset", "set", "tuple") and len(e.args) <= 1 and not e.keywords:
            v = ev(e.args[0]) if e.args else ()
            return frozenset(v) if e.func.id != "tuple" else tuple(v)
        if isinstance(e, ast.Call) and isinstance(e.func, ast.Attribute) and e.func.attr == "split" and isinstance(e.func.value, ast.Constant) and isinstance(e.func.value.value, str) and len(e.args) <= 1 and not e.keywords:
            return tuple(e.func.value.value.split(*[ev(a) for a in e.args]))
        if isinstance(e, ast.Call) and isinstance(e.func, ast.Attribute) and e.func.attr == "compile" and isinstance(e.func.value, ast.Name) and e.func.value.id == "re" and e.args and isinstance(e.args[0], ast.Constant) and isinstance(e.args[0].value, str):
            flags = 0
            if len(e.args) > 1 or e.keywords:
                raise ValueError("flags")
            return ("re", e.args[0].value, flags)
        raise ValueError(type(e).__name__)

    return ev(ast.parse(text, mode="eval").body)


def _const_equal(cur: str, old: str) -> tuple[bool, str] | None:
    """(equal, witness-text) or None when a spelling is not understood.  Two regular expressions are
    compared on every string up to length 4 over an alphabet drawn from both patterns plus one
    representative of each character class - a bounded decision: it can only err towards "equal"."""
    import itertools
    import re as _re

    try:
        a, b = _const_value(cur), _const_value(old)
    except (ValueError, SyntaxError, TypeError, OverflowError):
        return None
    if isinstance(a, tuple) and len(a) == 3 and a[0] == "re" and isinstance(b, tuple) and len(b) == 3 and b[0] == "re":
        try:
            ra, rb = _re.compile(a[1]), _re.compile(b[1])
        except _re.error:
            return None
        lits = {ch for pat in (a[1], b[1]) for ch in pat if not ch.isalnum() or True}
        alphabet = sorted((lits | set("a0 _-\r\n\t;\u00e9")) - set("\\[](){}|^$*+?."))[:14] + list("[](){}|,+*?.")[:6]
        alphabet = list(dict.fromkeys(alphabet))[:16]
        for n_ in range(0, 4):
            for tup in itertools.product(alphabet, repeat=n_):
                w = "".join(tup)
                if ra.findall(w) != rb.findall(w) or bool(ra.match(w)) != bool(rb.match(w)) or ra.split(w) != rb.split(w):
                    return False, f"; e.g. on {w!r} the two patterns behave differently"
        return True, ""
    if type(a) is not type(b) and not (isinstance(a, (int, float)) and isinstance(b, (int, float))):
        return (False, "") if not (isinstance(a, (tuple, frozenset)) and isinstance(b, (tuple, frozenset))) else ((frozenset(a) == frozenset(b)) if isinstance(a, frozenset) or isinstance(b, frozenset) else (a == b), "")
    return a == b, ""


def rule_rk_const(prog: Program, report: Report, pid: str) -> None:
    """Module-level constants of the files a property's anchors name (token and whitespace patterns,
    bit flags of the deletion / whitespace options, the 16-bit split of the recover encoding) keep the
    value they had in the reviewed tree: several functions rely on each of them at once (the encoder
    and the decoder of a recover value, the setter and the testers of an option bit), so no single
    function's table can see a change to the constant itself."""
    import json
    import os

    from ..gates import _REVIEWED, _reviewed  # noqa: F401
    from ..gates import view  # noqa: F401
    from .. import gates

    report.rules.append("RK-const")
    here = os.path.dirname(os.path.abspath(__file__))
    files: set[str] = set()
    for line in open(os.path.join(os.path.dirname(os.path.dirname(here)), "properties.jsonl"), encoding="utf-8"):
        pr = json.loads(line)
        if pr["id"] == pid:
            files = set(pr.get("anchors", {}).get("files", []))
    pth = os.path.join(os.path.dirname(os.path.dirname(here)), "selftest", "reviewed_shape.json")
    if gates._REVIEWED is None:
        gates._REVIEWED = json.load(open(pth)) if os.path.exists(pth) else {}
    consts = (gates._REVIEWED or {}).get("<module constants>", {})
    n = 0
    for rel in sorted(files):
        if rel not in consts or rel not in prog.modules:
            continue
        m = prog.modules[rel]
        now: dict[str, ast.expr] = {}
        for st in m.tree.body:
            if isinstance(st, ast.Assign) and len(st.targets) == 1 and isinstance(st.targets[0], ast.Name):
                now[st.targets[0].id] = st.value
            elif isinstance(st, ast.AnnAssign) and isinstance(st.target, ast.Name) and st.value is not None:
                now[st.target.id] = st.value
        for name, old in sorted(consts[rel].items()):
            if name not in now:
                report.note(f"RK-const: {rel}: constant {name} of the reviewed tree is gone (renamed or inlined): not judged")
                continue
            n += 1
            cur = " ".join(src(now[name]).split())
            same = cur == old
            witness = ""
            if not same:
                verdict = _const_equal(cur, old)
                if verdict is None:
                    report.errors.append(f"RK-const: {rel}: {name} is now `{cur[:60]}`, which cannot be compared with the reviewed `{old[:60]}` (unrecognised spelling; found 0 time(s) in a comparable form)")
                    continue
                same, witness = verdict
            if same:
                report.ob("RK-const", rel, f"{name} = {old[:50]}")
            else:
                report.violate("RK-const", f"{rel}::<module>", now[name], f"{name} = {cur[:60]}", f"the module constant {name} was `{old[:80]}` in the reviewed tree and is `{cur[:80]}` now; every function that encodes, decodes or tests values with it changes meaning together{witness}", what=f"{name} keeps its reviewed value")
    report.count("RK-const module constants compared", n)


def rule_rd_default(prog: Program, report: Report, pid: str) -> None:
    """A parameter that the reviewed function defaults in place (`if to is None: to = self.size`) is
    still defaulted by the same expression, whatever statement form the defaulting takes."""
    import json
    import os

    from ..gates import _reviewed, view
    from ..norm import Resolver
    from .rn import canon

    report.rules.append("RD-default")
    here = os.path.dirname(os.path.abspath(__file__))
    files: set[str] = set()
    for line in open(os.path.join(os.path.dirname(os.path.dirname(here)), "properties.jsonl"), encoding="utf-8"):
        pr = json.loads(line)
        if pr["id"] == pid:
            files = set(pr.get("anchors", {}).get("files", []))
    n = 0
    for key, fn in sorted(prog.funcs.items()):
        if fn.module.rel not in files:
            continue
        v = view(prog, key)
        rv = _reviewed(v)
        if rv is None:
            continue
        # defaults written in the signature: the value a caller gets by not passing the argument
        a_ = fn.node.args
        pos_ = [*a_.posonlyargs, *a_.args]
        sig_now = {q.arg: dflt for q, dflt in zip(pos_[len(pos_) - len(a_.defaults):], a_.defaults)}
        sig_now.update({q.arg: dflt for q, dflt in zip(a_.kwonlyargs, a_.kw_defaults) if dflt is not None})
        for p_, d in sorted((rv.get("sig") or {}).items()):
            if p_ not in sig_now:
                continue  # the parameter is gone or became required: a signature change, not judged here
            try:
                old_d = ast.parse(d, mode="eval").body
            except SyntaxError:
                continue
            n += 1
            if ast.dump(old_d) == ast.dump(sig_now[p_]) or canon(old_d) == canon(sig_now[p_]):
                report.ob("RD-default", key, f"parameter `{p_}` keeps its signature default {d[:40]}")
            else:
                report.violate("RD-default", fn, sig_now[p_], f"signature default of `{p_}` is `{' '.join(src(sig_now[p_]).split())[:60]}`", f"the reviewed {fn.qual} declares `{p_}={d[:60]}`; now the default is `{' '.join(src(sig_now[p_]).split())[:60]}` - every caller that omits the argument gets another value", what=f"parameter {p_} keeps its reviewed signature default")
        for p_, d in sorted(rv.get("defs", {}).items()):
            if p_ not in fn.params():
                continue
            try:
                old = ast.parse(d, mode="eval").body
            except SyntaxError:
                continue
            if not any(isinstance(x, ast.Name) and x.id == p_ for x in ast.walk(old)):
                continue  # not a self-referential default
            cur = v.res.defs.get(p_)
            if cur is None:
                continue  # no longer re-bound in a recognised form (a new local may carry the default): not judged
            n += 1
            sk = frozenset({p_})
            if canon(cur) == canon(old) or canon(v.res.expr(cur, 8, sk)) == canon(v.res.expr(old, 8, sk)):
                report.ob("RD-default", key, f"parameter `{p_}` is defaulted as in the reviewed tree: {d[:60]}")
            else:
                report.violate("RD-default", fn, cur, f"`{p_}` defaulted as `{' '.join(src(cur).split())[:70]}`", f"the reviewed {fn.qual} defaults its parameter `{p_}` with `{d[:80]}`; now it is `{' '.join(src(cur).split())[:80]}` - an explicitly passed value or the absent case is treated differently", what=f"parameter {p_} keeps its reviewed default")
    report.count("RD-default defaulted parameters compared", n)


# ---------------------------------------------------------------------------- RSW
_COMMUTATIVE_CALLS = {"min", "max", "same_markup", "eq", "union", "intersection", "compare_deep", "joinable_commutes"}


def rule_rsw(prog: Program, report: Report, pid: str) -> None:
    """A statement of the reviewed function re-appears with two operands of one call exchanged -
    the receiver and an argument (`before.append(frag)` -> `frag.append(before)`) or two arguments
    (`f(from_, to)` -> `f(to, from_)`) - and is otherwise identical.  For a call that is not symmetric
    in those operands that is a different computation; symmetric ones (min, max, eq, same_markup) are
    exempt."""
    import json
    import os
    from collections import Counter

    from ..gates import _reviewed, view
    from .rn import canon

    report.rules.append("RSW")
    here = os.path.dirname(os.path.abspath(__file__))
    files: set[str] = set()
    for line in open(os.path.join(os.path.dirname(os.path.dirname(here)), "properties.jsonl"), encoding="utf-8"):
        pr = json.loads(line)
        if pr["id"] == pid:
            files = set(pr.get("anchors", {}).get("files", []))

    def diffs(a: ast.AST, b: ast.AST, out: list, ctx: list) -> bool:
        """parallel walk; collects (a_sub, b_sub, enclosing-call-of-a, role) for differing leaves;
        False when the trees differ in shape."""
        if type(a) is not type(b):
            return False
        if isinstance(a, (ast.Name, ast.Attribute, ast.Constant, ast.Subscript)) and canon(a) != canon(b):  # type: ignore[arg-type]
            if isinstance(a, ast.Attribute) and isinstance(b, ast.Attribute) and a.attr == b.attr:
                return diffs(a.value, b.value, out, ctx)
            out.append((a, b, ctx[-1] if ctx else None))
            return True
        if isinstance(a, ast.Call):
            if len(a.args) != len(b.args) or len(a.keywords) != len(b.keywords):  # type: ignore[attr-defined]
                return False
            ctx.append(a)
            ok = diffs(a.func, b.func, out, ctx)  # type: ignore[attr-defined]
            for x, y in zip(a.args, b.args):  # type: ignore[attr-defined]
                ok = ok and diffs(x, y, out, ctx)
            for x, y in zip(a.keywords, b.keywords):  # type: ignore[attr-defined]
                ok = ok and x.arg == y.arg and diffs(x.value, y.value, out, ctx)
            ctx.pop()
            return ok
        fa, fb = list(ast.iter_fields(a)), list(ast.iter_fields(b))
        for (na, va), (nb, vb) in zip(fa, fb):
            if na in ("ctx", "lineno", "col_offset", "end_lineno", "end_col_offset", "type_comment"):
                continue
            if isinstance(va, list) and isinstance(vb, list):
                if len(va) != len(vb):
                    return False
                for x, y in zip(va, vb):
                    if isinstance(x, ast.AST) and isinstance(y, ast.AST):
                        if not diffs(x, y, out, ctx):
                            return False
                    elif x != y:
                        return False
            elif isinstance(va, ast.AST) and isinstance(vb, ast.AST):
                if not diffs(va, vb, out, ctx):
                    return False
            elif va != vb:
                return False
        return True

    n = 0
    for key, fn in sorted(prog.funcs.items()):
        if fn.module.rel not in files:
            continue
        v = view(prog, key)
        rv = _reviewed(v)
        if rv is None or "stmts" not in rv:
            continue
        stmts = [st for st in walk_own(fn.node) if isinstance(st, (ast.Assign, ast.AnnAssign, ast.AugAssign, ast.Expr, ast.Return))]
        now = Counter(" ".join(src(st).split()) for st in stmts)
        old = Counter(rv["stmts"])
        gone = list((old - now).elements())
        new = [st for st in stmts if (now - old).get(" ".join(src(st).split()), 0) > 0]
        if not gone or not new or len(gone) > 6:
            continue
        for st in new:
            for g in gone:
                try:
                    gt = ast.parse(g).body[0]
                except SyntaxError:
                    continue
                out: list = []
                if not diffs(gt, st, out, []) or len(out) != 2:
                    continue
                (a1, b1, c1), (a2, b2, c2) = out
                if c1 is None or c1 is not c2:
                    continue
                if canon(a1) != canon(b2) or canon(a2) != canon(b1):
                    continue
                callee = c1.func.attr if isinstance(c1.func, ast.Attribute) else (c1.func.id if isinstance(c1.func, ast.Name) else "")
                n += 1
                if callee in _COMMUTATIVE_CALLS:
                    continue
                report.violate("RSW", fn, st, f"operands exchanged: {' '.join(src(st).split())[:80]}", f"the reviewed {fn.qual} has `{g[:80]}`; the same statement now has `{canon(a1)}` and `{canon(a2)}` exchanged inside the call to `{callee}` and is otherwise identical - for a call that is not symmetric in them this computes something else (wrong side / wrong order)", what="no two operands of a reviewed call are exchanged")
    report.count("RSW statements with exchanged operands", n)
