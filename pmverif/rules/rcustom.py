"""Custom rules: RG3 (gate liveness / always-None parameter), RC-dep
(parameter relevance of validity predicates), RM-merge (slice sides of a
merged replace step), RP (paired updates), RQ (raise discipline)."""

from __future__ import annotations

import ast

from ..core import AnalysisError, Func, Program, Report, src, walk_own
from ..gates import view
from ..paths import TooManyPaths, enum_paths
from .rt import truth_tests


# ----------------------------------------------------------------------- RG3
def _gate_params(fn: Func) -> set[str]:
    """Parameters whose truthiness / non-None-ness guards something in fn."""
    params = set(fn.params()) - {"self", "cls"}
    out: set[str] = set()
    for a, _site in truth_tests(fn.node):
        if isinstance(a, ast.Name) and a.id in params:
            out.add(a.id)
        if isinstance(a, ast.Compare) and len(a.ops) == 1 and isinstance(a.ops[0], ast.IsNot) and isinstance(a.left, ast.Name) and a.left.id in params and isinstance(a.comparators[0], ast.Constant) and a.comparators[0].value is None:
            out.add(a.left.id)
    return out


def rule_rg3(prog: Program, report: Report, armed: tuple[str, ...] = ("prosemirror/model/replace.py::insert_into",)) -> None:
    """A parameter that guards a check (`if parent and not parent.can_replace`)
    must not be the literal None at every call site: the check would be dead."""
    report.rules.append("RG3")
    by_name: dict[str, list[Func]] = {}
    for f in prog.all_funcs():
        by_name.setdefault(f.name, []).append(f)
    calls: dict[str, list[tuple[Func, ast.Call]]] = {}
    for f in prog.all_funcs():
        for c in walk_own(f.node):
            if isinstance(c, ast.Call):
                nm = c.func.id if isinstance(c.func, ast.Name) else (c.func.attr if isinstance(c.func, ast.Attribute) else None)
                if nm in by_name:
                    calls.setdefault(nm, []).append((f, c))
    n = 0
    for name, fs in by_name.items():
        if len(fs) != 1:
            continue  # ambiguous name: not decided here
        fn = fs[0]
        gp = _gate_params(fn)
        if not gp or name not in calls:
            continue
        a = fn.node.args
        pos = [x.arg for x in [*a.posonlyargs, *a.args]]
        is_method = fn.cls is not None and pos and pos[0] in ("self", "cls")
        defaults = dict(zip(pos[len(pos) - len(a.defaults):], a.defaults))
        for x, d in zip(a.kwonlyargs, a.kw_defaults):
            if d is not None:
                defaults[x.arg] = d
        for p in sorted(gp):
            vals = []
            for caller, c in calls[name]:
                idx = pos.index(p) - (1 if is_method and isinstance(c.func, ast.Attribute) else 0) if p in pos else None
                v: ast.expr | None = None
                if idx is not None and 0 <= idx < len(c.args) and not any(isinstance(x, ast.Starred) for x in c.args[: idx + 1]):
                    v = c.args[idx]
                for kw in c.keywords:
                    if kw.arg == p:
                        v = kw.value
                if v is None:
                    v = defaults.get(p)
                vals.append((caller, c, v))
            n += 1
            all_none = bool(vals) and all(v is not None and isinstance(v, ast.Constant) and v.value is None for _, _, v in vals)
            if all_none:
                sites = [f"{cl.key}:{c.lineno}" for cl, c, _ in vals]
                if fn.key in armed:
                    report.violate("RG3", fn, fn.node, f"parameter `{p}` is None at every call site", f"`{p}` guards a check in {fn.qual} (e.g. `if {p} and not {p}.can_replace(...)`) but every one of the {len(vals)} call sites passes the literal None, so the check can never run", witness=sites, what=f"gate parameter `{p}` of {fn.qual} is live")
                else:
                    report.xref.setdefault("RG3 always-None gate parameters outside the armed table", []).append(f"{fn.key}({p}): {sites}")
            elif fn.key in armed:
                live = [f"{cl.qual}:{c.lineno} passes `{src(v)}`" for cl, c, v in vals if not (isinstance(v, ast.Constant) and v.value is None)]
                report.ob("RG3", fn.key, f"gate parameter `{p}` is live: {live[:2]}")
    for key in armed:
        if not any(o.where == key and o.rule == "RG3" for o in report.obligations):
            raise AnalysisError(f"RG3: {key} has no gate parameter any more (anchor drift)")
    report.count("RG3 gate parameters with call sites", n)


# -------------------------------------------------------------------- RC-dep
def _closure(fn: ast.AST, seeds: set[str]) -> set[str]:
    """Flow-insensitive transitive closure of the names a set of names depends on."""
    defs: dict[str, set[str]] = {}
    for n in walk_own(fn):
        tgts: list[ast.AST] = []
        val: ast.AST | None = None
        if isinstance(n, ast.Assign):
            tgts, val = n.targets, n.value
        elif isinstance(n, (ast.AnnAssign, ast.AugAssign)) and n.value is not None:
            tgts, val = [n.target], n.value
        elif isinstance(n, (ast.For, ast.comprehension)):
            tgts, val = [n.target], n.iter
        elif isinstance(n, ast.NamedExpr):
            tgts, val = [n.target], n.value
        if val is None:
            continue
        reads = {x.id for x in ast.walk(val) if isinstance(x, ast.Name)}
        for t in tgts:
            for x in ast.walk(t):
                if isinstance(x, ast.Name):
                    defs.setdefault(x.id, set()).update(reads)
    out = set(seeds)
    work = list(seeds)
    while work:
        x = work.pop()
        for d in defs.get(x, ()):
            if d not in out:
                out.add(d)
                work.append(d)
    return out


RC_TABLE = [
    ("prosemirror/model/node.py::Node.can_replace", ["from_", "to", "replacement", "start", "end"]),
    ("prosemirror/model/node.py::Node.can_replace_with", ["from_", "to", "type", "marks"]),
    ("prosemirror/model/node.py::Node.can_append", ["other"]),
    ("prosemirror/model/schema.py::NodeType.valid_content", ["content"]),
    ("prosemirror/model/content.py::ContentMatch.match_fragment", ["frag", "start", "end"]),
]


def rule_rc_dep(prog: Program, report: Report) -> None:
    """Every answer of a validity predicate other than the literal False must
    depend (through its value or the conditions that dominate it) on every
    parameter that the definition of validity mentions; a fast path that
    answers without looking at `start`/`end` is wrong for the inputs where
    they matter."""
    report.rules.append("RC-dep")
    for key, params in RC_TABLE:
        fn = prog.func(key)
        v = view(prog, key)
        rets = [r for r in v.find(lambda n: isinstance(n, ast.Return))]
        if not rets:
            raise AnalysisError(f"RC-dep: {key} has no return")
        for r in rets:
            if r.value is None or (isinstance(r.value, ast.Constant) and r.value.value in (False, None)):
                continue
            seeds = {x.id for x in ast.walk(r.value) if isinstance(x, ast.Name)}
            rn = v.cfg.node_for(r)
            for cn in v.cfg.nodes:
                # every test evaluated before this return on some path can decide for or against it
                if cn.kind == "cond" and cn.node is not None and rn is not None and v.cfg.reaches(cn, rn):
                    seeds |= {x.id for x in ast.walk(cn.node) if isinstance(x, ast.Name)}
            # a return after a loop also depends on the loop's own tests (they returned False)
            for loop in v.find(lambda n: isinstance(n, (ast.For, ast.While))):
                if loop.end_lineno < r.lineno:
                    seeds |= {x.id for x in ast.walk(loop) if isinstance(x, ast.Name)}
            deps = _closure(fn.node, seeds)
            missing = [p for p in params if p not in deps]
            text = " ".join(src(r).split())[:80]
            if missing:
                report.violate("RC-dep", fn, r, f"`{text}` ignores {missing}", f"this answer of {fn.qual} does not depend on parameter(s) {missing}: neither its value nor any condition that dominates it reads them, so the predicate answers the same for every value of them", witness=[f"depends on: {sorted(d for d in deps if d in set(fn.params()))}"], what=f"every non-False answer of {fn.qual} depends on {params}")
            else:
                report.ob("RC-dep", key, f"`{text}` depends on all of {params}")


# ------------------------------------------------------------------ RM-merge
def rule_merge_slices(prog: Program, report: Report) -> None:
    """In ReplaceStep.merge a merged slice Slice(A.content.append(B.content), X.open_start, Y.open_end)
    takes its open_start from the step whose content comes first (X == A) and its
    open_end from the one appended (Y == B); the glued sides A.open_end and
    B.open_start are tested falsy."""
    report.rules.append("RM-merge")
    key = "prosemirror/transform/replace_step.py::ReplaceStep.merge"
    v = view(prog, key)
    n = 0
    for c in v.find(lambda n: isinstance(n, ast.Call) and isinstance(n.func, ast.Name) and n.func.id == "Slice" and len(n.args) == 3):
        a0 = c.args[0]
        if not (isinstance(a0, ast.Call) and isinstance(a0.func, ast.Attribute) and a0.func.attr == "append" and len(a0.args) == 1):
            continue
        A = src(a0.func.value)
        B = src(a0.args[0])
        if not (A.endswith(".slice.content") and B.endswith(".slice.content")):
            raise AnalysisError(f"RM-merge: unrecognised merged content `{src(a0)}`")
        a, b = A[: -len(".slice.content")], B[: -len(".slice.content")]
        n += 1
        want = (f"{a}.slice.open_start", f"{b}.slice.open_end")
        got = (src(c.args[1]), src(c.args[2]))
        if got != want:
            report.violate("RM-merge", v.fn, c, f"merged slice sides {got}", f"the merged content is {a}'s followed by {b}'s, so the merged slice must be open like {a} at the start and like {b} at the end: expected {want}, found {got} (the guards force the other two sides to 0, so the merged slice silently loses its open sides)", what="merged slice keeps the outer open sides")
            continue
        facts = v.guards(c)
        need = [f"falsy({a}.slice.open_end)", f"falsy({b}.slice.open_start)"]
        miss = [x for x in need if x not in facts]
        if miss:
            report.violate("RM-merge", v.fn, c, "glued slice sides not tested", f"concatenating {a}'s and {b}'s content is only a merge when the glued sides are closed; missing {miss}", what="glued sides are closed")
        else:
            report.ob("RM-merge", key, f"Slice({a}+{b}): open_start from {a}, open_end from {b}, glued sides tested closed")
    report.expect_at_least("RM-merge", "merged slice constructions", n, 2)
