"""RG - gates: declarative obligations decided on the CFG.

Gate : every evaluation of TARGET in FN happens only under the facts NEEDS
       (every entry->target path passes a condition edge establishing the
       fact, or the short-circuit context does); `forbid` lists facts that must
       NOT dominate the target (a guard that became too strong); `exact`
       demands that no other fact at all dominates it.
Pass : every path from the entry of FN to TARGET passes a statement that
       contains THROUGH (must-pass-through).
Form : every node selected by TARGET has a source form matching FORM
       (who-may-produce / argument discipline).
Must : among the statements evaluated under facts UNDER there is one
       matching CONTAINS (a branch that must perform a step).
Each entry is a necessary condition of the property it serves, confirmed by
reading the code (one line of reason per entry).  A target/branch that is no
longer found is ANALYSIS-ERROR (the table needs maintenance), never a
violation.
"""

from __future__ import annotations

import ast
import os
import re
from dataclasses import dataclass, field

from ..core import AnalysisError, Program, Report, src, walk_own
from ..gates import FnView, holds, need_facts, require, view

SIMPLE = (ast.Assign, ast.AugAssign, ast.AnnAssign, ast.Return, ast.Raise, ast.Expr, ast.Break, ast.Continue, ast.Delete)


@dataclass
class Gate:
    props: tuple[str, ...]
    fn: str
    kind: str  # stmt | call | ret | expr
    target: str  # regex (search) on the one-line source of the node
    needs: list
    why: str
    min: int = 1
    max: int | None = None
    rule: str = "RG"
    forbid: tuple[str, ...] = ()
    exact: bool = False
    nonnull: str | None = None


@dataclass
class Pass:
    props: tuple[str, ...]
    fn: str
    kind: str
    target: str
    through: str  # regex on statement / condition source
    why: str
    min: int = 1
    rule: str = "RG-pass"
    scope: str = "function"  # "iteration": every path from the head of the innermost enclosing loop


@dataclass
class Form:
    props: tuple[str, ...]
    fn: str
    kind: str  # ret | call | stmt | expr | arg:<k>
    target: str
    form: str  # regex the selected source must match (search)
    why: str
    min: int = 1
    rule: str = "RG-form"


@dataclass
class Absent:
    """No node selected by TARGET exists in FN (a construct that would skip
    required work, e.g. a `break` in a loop that must visit every edge)."""

    props: tuple[str, ...]
    fn: str
    kind: str
    target: str
    why: str
    rule: str = "RG-absent"


@dataclass
class Val:
    """The expression selected by TARGET equals EXPECT after normalisation
    (linear arithmetic in normal form, calls canonicalised argument-wise):
    a documented formula, tolerant of reordered terms."""

    props: tuple[str, ...]
    fn: str
    kind: str  # ret | stmt (value of an assignment) | arg:<k> | expr
    target: str
    expect: str  # python expression
    why: str
    min: int = 1
    resolve: bool = False
    rule: str = "RG-val"


@dataclass
class Must:
    props: tuple[str, ...]
    fn: str
    under: list  # facts selecting the branch
    contains: str  # regex on a simple statement evaluated under those facts
    why: str
    rule: str = "RG-must"


def one_line(n: ast.AST) -> str:
    return " ".join(src(n).split())


_RX_IDENT = re.compile(r"(?<![\w.\\'\"])([A-Za-z_]\w*)(?![\w])(?!\\\()")


def loosen(v: FnView, pattern: str) -> str | None:
    """The pattern with every identifier the function no longer contains (a renamed local) replaced
    by `\\w+`; None when it mentions no such identifier."""
    from ..gates import fn_names

    names = fn_names(v) | {a.attr for a in ast.walk(v.fn.node) if isinstance(a, ast.Attribute)}
    hit = False
    kept = 0

    def rep(m: re.Match) -> str:
        nonlocal hit, kept
        if m.group(1) in names:
            kept += 1
        if m.group(1) in names or m.group(1) in ("None", "True", "False", "if", "else", "for", "in", "not", "and", "or", "is", "while", "return", "lambda"):
            return m.group(1)
        hit = True
        return r"\w+"

    out = _RX_IDENT.sub(rep, pattern)
    kept += len(re.findall(r"\\\.[A-Za-z_]\w*", pattern))  # attribute / method names stay literal
    return out if hit and kept else None  # a pattern left without any literal name would match anything


def find_targets(v: FnView, kind: str, pattern: str, arms_fallback: bool = False) -> list[ast.AST]:
    out = _find_targets(v, kind, pattern, arms_fallback)
    if not out and (loose := loosen(v, pattern)) is not None:
        try:
            out = _find_targets(v, kind, loose, arms_fallback)
        except re.error:
            out = []
        if len(out) > 1:
            out = []  # the loosened pattern is ambiguous (`edge(cur, \w+)`): no target rather than the wrong one
    return out


def _find_targets(v: FnView, kind: str, pattern: str, arms_fallback: bool = False) -> list[ast.AST]:
    rx = re.compile(pattern)
    if kind == "stmt":
        cands = v.find(lambda n: isinstance(n, SIMPLE))
    elif kind == "ret":
        cands = v.find(lambda n: isinstance(n, ast.Return))
    elif kind == "call" or kind.startswith("arg:"):
        cands = v.find(lambda n: isinstance(n, ast.Call))
    elif kind == "loop":
        out = []
        for n in v.find(lambda n: isinstance(n, (ast.For, ast.While))):
            head = f"for {one_line(n.target)} in {one_line(n.iter)}" if isinstance(n, ast.For) else f"while {one_line(n.test)}"
            if rx.search(head):
                n._head = head  # type: ignore[attr-defined]
                out.append(n)
        return out
    elif kind == "expr":
        cands = v.find(lambda n: isinstance(n, ast.expr))
    else:
        raise AnalysisError(f"unknown target kind {kind}")
    out = []
    for n in cands:
        text = one_line(n.value) if kind == "ret" and n.value is not None else ("None" if kind == "ret" else one_line(n))  # type: ignore[attr-defined]
        if rx.search(text):
            out.append(n)
    if kind == "ret" and not out and arms_fallback:
        # a conditional-expression return abbreviates guarded returns: when no plain return
        # matches (the function was rewritten that way), its arms are the targets
        for n in cands:
            arms = _arms(n.value) if n.value is not None else []  # type: ignore[attr-defined]
            if len(arms) > 1:
                out.extend(a for a in arms if rx.search(one_line(a)))
    return out


def _arms(e: ast.expr) -> list[ast.expr]:
    if isinstance(e, ast.IfExp):
        return _arms(e.body) + _arms(e.orelse)
    return [e]


def _decline_reshaped(prog: Program, report: Report, before: int) -> None:
    """A table instance is a statement-level comparison with the reviewed function.  When that
    function's control skeleton is no longer the reviewed one, a mismatch says "restructured", not
    "violated": the finding becomes an analysis error (exit 2) with the same text."""
    from ..gates import reshaped

    keep = report.findings[:before]
    for f in report.findings[before:]:
        if reshaped(prog, f.where):
            msg = f"{f.rule}: {f.where}: not judged - the function's control skeleton differs from the reviewed tree's (restructured), so `{f.construct[:80]}` cannot be compared with the reviewed instance; found 0 time(s) in reviewed shape"
            if f.rule in ("RG-auto", "RV-auto"):
                report.note(msg)
            else:
                report.errors.append(msg)
            for o in report.obligations:
                if not o.ok and o.where == f.where and o.rule == f.rule:
                    o.ok = True
                    o.what += " [not judged: function restructured]"
        else:
            keep.append(f)
    report.findings[:] = keep


SHAPE_GATING = "auto"  # "off" | "auto" (reviewed-tree instances only) | "all" (hand table too)
AUTO_FLOOR = 0.7  # share of the reviewed-tree instances of a property that must still be present


def run_gates(prog: Program, report: Report, table: list, pid: str) -> None:
    n = 0
    auto_total = auto_gone = 0
    for g in table:
        if pid not in g.props:
            continue
        if g.rule not in report.rules:
            report.rules.append(g.rule)
        try:
            if g.rule in ("RG-auto", "RV-auto"):
                auto_total += 1
            before = len(report.findings)
            n += _run_one(prog, report, g)
            mode = os.environ.get("PMVERIF_SHAPE", SHAPE_GATING)
            if len(report.findings) > before and (mode == "all" or (mode == "auto" and g.rule in ("RG-auto", "RV-auto"))):
                _decline_reshaped(prog, report, before)
        except AnalysisError as e:
            if g.rule in ("RG-auto", "RV-auto") and ("found 0 time" in str(e) or "expected at most" in str(e)):
                # an instance extracted from the reviewed tree is a universally quantified statement over
                # the statements of that text: when the statement is gone (or there are now more of them
                # than were reviewed) there is nothing to judge.  The hand table keeps the strict policy;
                # here only a collapse of the instance count is an analysis error (no vacuous pass).
                auto_gone += 1
                report.note(f"reviewed-tree instance not judged: {e}")
                continue
            report.errors.append(str(e))
    report.count("RG gate/pass/form obligations", n)
    if auto_total:
        report.count("RG-auto reviewed-tree instances present", auto_total - auto_gone)
        if auto_total - auto_gone < AUTO_FLOOR * auto_total:
            report.errors.append(f"RG-auto: only {auto_total - auto_gone} of {auto_total} reviewed-tree instances are still present (below {int(AUTO_FLOOR * 100)}%): the instance table needs maintenance")


def _run_one(prog: Program, report: Report, g) -> int:
    n = 0
    if True:
        v = view(prog, g.fn)
        if isinstance(g, Must):
            _must(report, v, g)
            return 1
        if isinstance(g, Absent):
            hits = find_targets(v, g.kind, g.target)
            if hits:
                for t in hits:
                    report.violate(g.rule, v.fn, t, f"{g.why.split(';')[0]}: {one_line(t)[:80]}", g.why, what=f"no /{g.target}/ in {v.fn.qual}")
            else:
                report.ob(g.rule, g.fn, f"{g.why.split(';')[0]}: no /{g.target}/")
            return 1
        targets = find_targets(v, g.kind, g.target, arms_fallback=isinstance(g, Gate))
        if len(targets) < g.min and not (g.min == 0):
            from ..gates import new_helpers

            hint = f"; the function now calls {[h.name for h in new_helpers(v)]}, which the reviewed tree did not have" if new_helpers(v) else ""
            raise AnalysisError(f"{g.rule}: {g.fn}: target /{g.target}/ found {len(targets)} time(s), expected at least {g.min} (table needs maintenance{hint})")
        if isinstance(g, Gate):
            from ..gates import returns_reshaped

            negative = re.fullmatch(r"\^(False|None|break|continue)\$", g.target) is not None
            # an added refusal / skip path (`return None`, `return False`, `continue`) is what a guard-clause
            # clean-up produces and cannot be told from a new early exit; an added approval (`return True`)
            # is judged as long as every reviewed return is still there
            if g.max is None and g.min >= 1 and re.fullmatch(r"\^(False|True|None|break|continue)\$", g.target) and len(targets) > g.min and (negative or returns_reshaped(v)):
                # constant answers are split and merged freely by refactorings: more of them than were
                # reviewed cannot be attributed to the reviewed guard sets
                raise AnalysisError(f"{g.rule}: {g.fn}: target /{g.target}/ found {len(targets)} times, expected at most {g.min} (a constant answer the reviewed code did not have: unrecognised)")
            if g.max is not None and len(targets) > g.max:
                raise AnalysisError(f"{g.rule}: {g.fn}: target /{g.target}/ found {len(targets)} times, expected at most {g.max}")
            for t in targets:
                n += 1
                ok = require(report, g.rule, v, t, g.needs, g.why.split(";")[0], g.why, nonnull=g.nonnull)
                if ok and (g.forbid or g.exact):
                    dom = v.guards(t, resolve=False)
                    bad = [f for f in g.forbid if holds(dom, f)]
                    if g.exact:
                        allowed = {x for nd in g.needs for a in ([nd] if isinstance(nd, str) else nd) for x in need_facts(a)}
                        from ..gates import alpha, expand_vanished, vanished

                        # a renamed local: compare modulo renaming when the table's fact mentions a vanished name
                        from ..gates import full_fact

                        def _norm_fact(x: str) -> str:
                            x = expand_vanished(v, x)
                            x = full_fact(v, x) or x
                            return alpha(x, v.locals | vanished(v, x))

                        allowed_a = {_norm_fact(x) for x in allowed}
                        bad += sorted(f for f in dom - allowed if _norm_fact(f) not in allowed_a)
                    if bad:
                        report.violate(g.rule, v.fn, t, f"over-guarded: {one_line(t)[:100]}", f"{g.why}; it is additionally guarded by {bad}, so it no longer happens in cases where it must", what=f"{g.why.split(';')[0]}: no stronger guard than {g.needs}")
        elif isinstance(g, Val):
            from .rn import canon, kind_of

            if g.rule == "RV-auto" and len(targets) > 1:
                # the instance was extracted for exactly one statement; several now match its head
                raise AnalysisError(f"{g.rule}: {g.fn}: target /{g.target}/ found {len(targets)} times, expected at most 1 (the statement was split: unrecognised)")
            want_ast0 = ast.parse(g.expect, mode="eval").body
            want_ast = want_ast0
            want = canon(want_ast)
            if g.kind == "ret" and len(targets) > max(g.min, 1) and all(isinstance(t, ast.Return) for t in targets):
                # the documented single return was split into guarded returns: compare the conditional
                # expression they abbreviate (`if c: return A` / `return B`  ==  `return A if c else B`)
                from .rn import _ret_normal

                body = [st for st in _ret_normal(list(v.fn.node.body)) if not isinstance(st, (ast.Assign, ast.AnnAssign)) and not (isinstance(st, ast.Expr) and isinstance(st.value, ast.Constant))]
                if len(body) == 1 and isinstance(body[0], ast.Return) and body[0].value is not None:
                    comb = body[0].value
                    wa = _expand_reviewed_defs(v, want_ast0)
                    if canon(v.res.expr(comb, 8)) == canon(v.res.expr(wa, 8)) or canon(comb) == canon(wa):
                        report.ob(g.rule, g.fn, f"{g.why.split(';')[0]}: the guarded returns together are {canon(wa)[:80]}")
                        return n + 1
                    raise AnalysisError(f"{g.rule}: {g.fn}: the documented return `{want[:60]}` was split into {len(targets)} guarded returns whose combination found 0 time(s) in the documented form (restructured)")
            for t in targets:
                n += 1
                if g.kind.startswith("arg:"):
                    k = int(g.kind[4:].split(":")[0])
                    e = t.args[k] if -len(t.args) <= k < len(t.args) else None  # type: ignore[attr-defined]
                elif g.kind == "ret":
                    e = t.value if isinstance(t, ast.Return) else t
                elif g.kind == "stmt":
                    e = getattr(t, "value", None)
                else:
                    e = t
                if e is None:
                    raise AnalysisError(f"{g.rule}: {g.fn}: target /{g.target}/ has no value expression")
                cands = [e] + [v.res.expr(e, d) for d in (1, 2, 3)]
                gots = [canon(c) for c in cands]
                want_ast = _expand_reviewed_defs(v, want_ast0)  # a vanished local of the formula stands for its reviewed definition
                want = canon(want_ast)
                # hoisted sub-expressions: both sides with every single-assignment local replaced by its definition
                full = canon(v.res.expr(e, 6)) == canon(v.res.expr(want_ast, 6))
                if want in gots or full or _equal_modulo_rename(v, want_ast, cands, canon) or _same_constant(e, want_ast):
                    report.ob(g.rule, g.fn, f"{g.why.split(';')[0]}: `{one_line(e)[:70]}` = {want}")
                elif _dropped_arm(v, want_ast, gots, canon) is not None:
                    c_, arm = _dropped_arm(v, want_ast, gots, canon)
                    report.violate(g.rule, v.fn, t, f"{g.why.split(';')[0]}: {one_line(t)[:100]}", f"{g.why}; the documented value is `{want}`, the expression is only its `{arm}` arm and the function no longer tests `{c_}` anywhere: the other case was dropped", what=f"/{g.target}/ = {want}")
                elif not any(kind_of(c) == kind_of(want_ast) for c in cands):
                    # a different construct: unrecognised idiom for this target only (other targets are still judged)
                    msg = f"{g.rule}: {g.fn}: `{one_line(e)[:60]}` is a different construct than the documented formula `{want[:60]}` (unrecognised idiom)"
                    if g.rule == "RV-auto":
                        raise AnalysisError(msg + " found 0 time(s) of the reviewed construct")
                    report.errors.append(msg)
                elif _renamed_new(v, want_ast, e, canon):
                    report.ob(g.rule, g.fn, f"{g.why.split(';')[0]}: `{one_line(e)[:70]}` = {want} (modulo a renamed local)")
                elif _new_in(v, v.res.expr(e, 6)):  # new names that are not just hoisted sub-expressions
                    raise AnalysisError(f"{g.rule}: {g.fn}: `{one_line(e)[:60]}` cannot be compared with the documented formula `{want[:60]}`: it mentions {_new_in(v, v.res.expr(e, 6))}, which the reviewed function did not contain; the formula's own names found 0 time(s) in that role (renamed or restructured)")
                elif _gone_names(v, want_ast):
                    raise AnalysisError(f"{g.rule}: {g.fn}: `{one_line(e)[:60]}` cannot be compared with the documented formula `{want[:60]}`: it mentions {_gone_names(v, want_ast)}, found 0 time(s) in the function now (renamed or restructured)")
                else:
                    report.violate(g.rule, v.fn, t, f"{g.why.split(';')[0]}: {one_line(t)[:100]}", f"{g.why}; the expression normalises to `{gots[0]}` but the documented formula is `{want}`", what=f"/{g.target}/ = {want}")
        elif isinstance(g, Form):
            rx = re.compile(g.form)
            for t in targets:
                n += 1
                if g.kind.startswith("arg:"):
                    k = int(g.kind[4:].split(":")[0])
                    args = list(t.args)  # type: ignore[attr-defined]
                    kwname = g.kind[4:].split(":")[1] if ":" in g.kind[4:] else None
                    if kwname and k >= len(args):
                        # the same parameter passed by keyword (arg:<k>:<name>)
                        kw = [q.value for q in t.keywords if q.arg == kwname]  # type: ignore[attr-defined]
                        if kw and k == len(args):
                            args = args + kw
                    if not (-len(args) <= k < len(args)):
                        report.violate(g.rule, v.fn, t, f"{g.why.split(';')[0]}: {one_line(t)[:100]}", f"{g.why}; argument {k} is missing", what=f"argument {k} of /{g.target}/ matches /{g.form}/")
                        continue
                    text = one_line(args[k])
                elif g.kind == "ret":
                    tv = t.value if isinstance(t, ast.Return) else t
                    text = one_line(tv) if tv is not None else "None"
                elif g.kind == "loop":
                    text = getattr(t, "_head", one_line(t))
                else:
                    text = one_line(t)
                texts = [text]
                if g.kind.startswith("arg:"):
                    for d in (1, 2, 3):
                        texts.append(one_line(v.res.expr(args[k], d)))
                if g.kind in ("stmt", "ret") and isinstance(t, ast.stmt) and getattr(t, "value", None) is not None:
                    for d in (1, 2, 3):
                        rv = one_line(v.res.expr(t.value, d))  # type: ignore[attr-defined]
                        if g.kind == "ret":
                            texts.append(rv)
                        elif isinstance(t, ast.Assign) and len(t.targets) == 1:
                            texts.append(f"{one_line(t.targets[0])} = {rv}")
                loose = None
                if not any(rx.search(x) for x in texts) and g.kind == "ret":
                    from ..gates import new_helpers, view as _view

                    tv2 = t.value if isinstance(t, ast.Return) else t
                    hs = [h for h in new_helpers(v) if isinstance(tv2, ast.Call) and isinstance(tv2.func, ast.Name) and tv2.func.id == h.name]
                    if hs:
                        # the returned value is produced by a helper the reviewed tree did not have: its returns carry the form
                        hv = _view(v.prog, hs[0].key)
                        rets = [r for r in hv.find(lambda n: isinstance(n, ast.Return))]
                        rtexts = [[one_line(r.value) if r.value is not None else "None"] + [one_line(hv.res.expr(r.value, d)) for d in (1, 2, 3) if r.value is not None] for r in rets]
                        if rets and all(any(rx.search(x) for x in tx) for tx in rtexts):
                            report.ob(g.rule, g.fn, f"{g.why.split(';')[0]}: [{text[:60]}] returns through the extracted helper {hs[0].name}, whose returns have the required form")
                            continue
                        if rets and not any(any(rx.search(x) for x in tx) for tx in rtexts):
                            # no return of the helper has the form at all: the value really is of another shape
                            report.violate(g.rule, v.fn, t, f"{g.why.split(';')[0]}: {text[:100]}", f"{g.why}; the value comes from the new helper {hs[0].name}, none of whose returns has the form (they are {[tx[0][:40] for tx in rtexts][:3]})", what=f"/{g.target}/ has form /{g.form}/")
                            continue
                        raise AnalysisError(f"{g.rule}: {g.fn}: `{text[:60]}` is produced by {hs[0].name}, a helper the reviewed tree did not have, whose returns found 0 time(s) in the required form (restructured)")
                if not any(rx.search(x) for x in texts):
                    loose = loosen(v, g.form)
                if any(rx.search(x) for x in texts) or (loose is not None and any(re.search(loose, x) for x in texts)):
                    report.ob(g.rule, g.fn, f"{g.why.split(';')[0]}: [{text[:80]}] has the required form")
                elif loose is not None:
                    raise AnalysisError(f"{g.rule}: {g.fn}: the form of `{text[:60]}` cannot be compared: the reviewed form mentions an identifier found 0 time(s) in the function now (renamed or restructured)")
                else:
                    report.violate(g.rule, v.fn, t, f"{g.why.split(';')[0]}: {text[:100]}", f"{g.why}; found `{text[:100]}`", what=f"/{g.target}/ has form /{g.form}/")
        else:
            rx = re.compile(g.through)
            through = []
            for cn in v.cfg.nodes:
                if cn.node is None or cn.kind in ("T", "F", "entry", "exit", "raise", "join", "handler", "for-iter", "for-next", "for-exit"):
                    continue
                if rx.search(one_line(cn.node)):
                    through.append(cn)
            for t in targets:
                n += 1
                tn = v.cfg.node_for(t)
                if tn is None:
                    raise AnalysisError(f"{g.rule}: {g.fn}: no CFG node for target {one_line(t)[:60]}")
                thr = [x for x in through if x is not tn]
                if getattr(g, "scope", "function") == "iteration":
                    ok = bool(thr) and _must_pass_iteration(v, t, tn, thr)
                else:
                    ok = bool(thr) and v.cfg.must_pass(tn, thr)
                if ok:
                    report.ob(g.rule, g.fn, f"every path to [{one_line(t)[:80]}] passes /{g.through}/")
                else:
                    report.violate(g.rule, v.fn, t, f"{g.why.split(';')[0]}: {one_line(t)[:100]}", f"{g.why}; a path from the function entry reaches this statement without passing `{g.through}`", what=f"every path to the target passes /{g.through}/")
    return n


def _same_constant(e: ast.expr, want: ast.expr) -> bool:
    """Two spellings of one constant (a number, a literal set, an equivalent regular expression up to
    the bounded comparison of rcustom._const_equal)."""
    from .rcustom import _const_equal

    try:
        r = _const_equal(one_line(e), one_line(want))
    except Exception:  # noqa: BLE001
        return False
    return bool(r and r[0])


def _new_in(v: FnView, e: ast.expr) -> list[str]:
    from ..gates import new_names

    nn = new_names(v)
    return sorted({n.id for n in ast.walk(e) if isinstance(n, ast.Name) and n.id in nn})


def _dropped_arm(v: FnView, want_ast: ast.expr, gots: list[str], canon):  # noqa: ANN201
    """The documented value is `A if c else B`, the expression is exactly A or exactly B, and no test of the
    function (statement or expression level) mentions what `c` compares: the case distinction is gone, not
    moved.  -> (condition text, arm name) or None."""
    if not isinstance(want_ast, ast.IfExp):
        return None
    arms = {canon(want_ast.body): "then", canon(want_ast.orelse): "else"}
    if len(arms) != 2:
        return None
    arm = next((arms[g_] for g_ in gots if g_ in arms), None)
    if arm is None:
        return None
    cond = canon(want_ast.test)
    ctext = {cond, canon(ast.UnaryOp(op=ast.Not(), operand=want_ast.test))}
    tests: list[ast.expr] = []
    for n_ in walk_own(v.fn.node):
        if isinstance(n_, (ast.If, ast.While, ast.IfExp, ast.Assert)):
            tests.append(n_.test)
        elif isinstance(n_, ast.BoolOp):
            tests.extend(n_.values)
        elif isinstance(n_, ast.comprehension):
            tests.extend(n_.ifs)
    for t_ in tests:
        for sub in ast.walk(t_):
            if isinstance(sub, ast.expr) and canon(sub) in ctext:
                return None
    # the operands of the condition: if a test still compares the same two things some other way, decline
    if isinstance(want_ast.test, ast.Compare) and len(want_ast.test.ops) == 1:
        a_, b_ = canon(want_ast.test.left), canon(want_ast.test.comparators[0])
        for t_ in tests:
            for sub in ast.walk(t_):
                if isinstance(sub, ast.Compare) and len(sub.ops) == 1 and {canon(sub.left), canon(sub.comparators[0])} == {a_, b_}:
                    return None
    return cond, arm


def _renamed_new(v: FnView, want_ast: ast.expr, e: ast.expr, canon) -> bool:
    """The expression mentions identifiers the reviewed function did not have: each may be a new
    name for one of the formula's names (even one that still exists, e.g. as a parameter)."""
    import itertools

    from ..norm import clone

    new = _new_in(v, e)
    if not new or len(new) > 3:
        return False
    want_names = sorted({n.id for n in ast.walk(want_ast) if isinstance(n, ast.Name)})
    want = canon(want_ast)
    for combo in itertools.product(want_names, repeat=len(new)):
        m = dict(zip(new, combo))
        c = clone(e)
        for n in ast.walk(c):
            if isinstance(n, ast.Name) and n.id in m:
                n.id = m[n.id]
        if canon(c) == want:
            return True
    return False


def _expand_reviewed_defs(v: FnView, want_ast: ast.expr) -> ast.expr:
    from ..gates import _reviewed
    from ..norm import clone

    rv = _reviewed(v)
    if rv is None or not rv.get("defs"):
        return want_ast
    cur = want_ast
    for _ in range(3):
        gone = [g for g in _gone_names(v, cur) if g in rv["defs"]]
        if not gone:
            break

        class T(ast.NodeTransformer):
            def visit_Name(self, node: ast.Name) -> ast.AST:
                if node.id in gone and isinstance(node.ctx, ast.Load):
                    return ast.parse(rv["defs"][node.id], mode="eval").body
                return node

        cur = ast.fix_missing_locations(T().visit(clone(cur)))
    return cur


def _gone_names(v: FnView, want_ast: ast.expr) -> list[str]:
    from ..gates import _reviewed, fn_names

    gone = {n.id for n in ast.walk(want_ast) if isinstance(n, ast.Name)} - fn_names(v)
    rv = _reviewed(v)
    if rv is not None and "locals" in rv:
        gone &= set(rv["locals"])  # only a local / parameter of the reviewed function can have been renamed
    return sorted(gone)


def _equal_modulo_rename(v: FnView, want_ast: ast.expr, cands: list, canon) -> bool:
    """The formula mentions locals that no longer exist in the function (renamed, or inlined into
    their only use): they are pattern variables that may stand for any one sub-expression of the
    statement, consistently.  A swap of two names that both still exist is not excused."""
    import itertools

    from ..norm import clone

    gone = _gone_names(v, want_ast)
    if not gone or len(gone) > 2:
        return False
    gots = {canon(c) for c in cands}
    subs: dict[str, ast.expr] = {}
    for c in cands:
        for x in ast.walk(c):
            if isinstance(x, (ast.Name, ast.Attribute, ast.Call, ast.Subscript)) and isinstance(getattr(x, "ctx", ast.Load()), ast.Load):
                subs.setdefault(canon(x), x)
    pool = list(subs.values())[:60]
    for combo in itertools.product(pool, repeat=len(gone)):
        m = dict(zip(gone, combo))

        class T(ast.NodeTransformer):
            def visit_Name(self, node: ast.Name) -> ast.AST:
                return clone(m[node.id]) if node.id in m else node

        w = T().visit(clone(want_ast))
        if canon(w) in gots:
            return True
    return False


def _must_pass_iteration(v: FnView, t: ast.AST, tn, thr: list) -> bool:
    """Every path from the start of an iteration of the innermost loop around `t` to `t` passes `thr`."""
    from ..core import parent_of

    loop = parent_of(t)
    while loop is not None and not isinstance(loop, (ast.For, ast.While)):
        loop = parent_of(loop)
    if loop is None:
        raise AnalysisError("RG-pass: iteration scope outside a loop")
    heads = [n for n in v.cfg.nodes if n.node is loop and n.kind in ("for-next", "join")]
    if not heads:
        raise AnalysisError("RG-pass: loop head not found")
    start = heads[0]
    block = set(thr)
    seen = {start}
    st = [start]
    while st:
        n = st.pop()
        if n is tn:
            return False
        for s_ in n.succ:
            if s_ not in seen and s_ not in block and s_ is not start:
                seen.add(s_)
                st.append(s_)
    return True


def _must(report: Report, v: FnView, g: Must) -> None:
    rx = re.compile(g.contains)
    branch = []
    for s in v.find(lambda n: isinstance(n, SIMPLE)):
        dom = v.guards(s)
        if all(any(holds(dom, a) for a in ([nd] if isinstance(nd, str) else nd)) for nd in g.under):
            branch.append(s)
    if not branch:
        raise AnalysisError(f"{g.rule}: {g.fn}: no statement is evaluated under {g.under} (branch vanished; table needs maintenance)")
    hit = [s for s in branch if rx.search(one_line(s))]
    if not hit and (loose := loosen(v, g.contains)) is not None:
        hit = [s for s in branch if re.search(loose, one_line(s))]
    if not hit:
        from ..gates import new_helpers, view as _view

        for h in new_helpers(v):
            # the statement moved into a helper the reviewed tree did not have: it must be there, and
            # the helper must be called from the branch
            called = [s for s in branch if any(isinstance(c, ast.Call) and isinstance(c.func, ast.Name) and c.func.id == h.name for c in ast.walk(s))]
            if not called:
                continue
            hv = _view(v.prog, h.key)
            inner = [s for s in hv.find(lambda n: isinstance(n, SIMPLE)) if rx.search(one_line(s)) or ((lo := loosen(hv, g.contains)) is not None and re.search(lo, one_line(s)))]
            if inner:
                report.ob(g.rule, g.fn, f"{g.why.split(';')[0]}: the branch under {g.under} calls the extracted helper {h.name}, which contains [{one_line(inner[0])[:60]}]")
                return
            raise AnalysisError(f"{g.rule}: {g.fn}: the branch under {g.under} now calls {h.name}, a helper the reviewed tree did not have; /{g.contains}/ found 0 time(s) in either (restructured)")
    if hit:
        report.ob(g.rule, g.fn, f"{g.why.split(';')[0]}: the branch under {g.under} contains [{one_line(hit[0])[:70]}]")
    else:
        report.violate(g.rule, v.fn, branch[0], f"{g.why.split(';')[0]}: branch under {g.under} lacks /{g.contains}/", f"{g.why}; the branch consists of: {[one_line(s)[:50] for s in branch][:6]}", what=f"branch under {g.under} contains /{g.contains}/")
