"""RG - gates: declarative obligations decided on the CFG.

Gate : every evaluation of TARGET in FN happens only under the facts NEEDS
       (dominating condition edges + short-circuit context; locals resolved).
Pass : every path from the entry of FN to TARGET passes a statement that
       contains THROUGH (must-pass-through).
Each entry is a necessary condition of the property it serves, confirmed by
reading the code (one line of reason per entry).  A target that is no longer
found is ANALYSIS-ERROR (the table needs maintenance), never a violation.
"""

from __future__ import annotations

import ast
import re
from dataclasses import dataclass, field

from ..core import AnalysisError, Program, Report, src, walk_own
from ..gates import FnView, has_fact, require, view

SIMPLE = (ast.Assign, ast.AugAssign, ast.AnnAssign, ast.Return, ast.Raise, ast.Expr, ast.Break, ast.Continue, ast.Delete)


@dataclass
class Gate:
    props: tuple[str, ...]
    fn: str
    kind: str  # stmt | call | ret | expr
    target: str  # regex (search) on the one-line source of the node
    needs: list
    why: str
    min: int = 1
    max: int | None = None
    rule: str = "RG"


@dataclass
class Pass:
    props: tuple[str, ...]
    fn: str
    kind: str
    target: str
    through: str  # regex on statement / condition source
    why: str
    min: int = 1
    rule: str = "RG-pass"


def one_line(n: ast.AST) -> str:
    return " ".join(src(n).split())


def find_targets(v: FnView, kind: str, pattern: str) -> list[ast.AST]:
    rx = re.compile(pattern)
    if kind == "stmt":
        cands = v.find(lambda n: isinstance(n, SIMPLE))
    elif kind == "ret":
        cands = v.find(lambda n: isinstance(n, ast.Return))
    elif kind == "call":
        cands = v.find(lambda n: isinstance(n, ast.Call))
    elif kind == "expr":
        cands = v.find(lambda n: isinstance(n, ast.expr))
    else:
        raise AnalysisError(f"unknown target kind {kind}")
    out = []
    for n in cands:
        text = one_line(n.value) if kind == "ret" and n.value is not None else ("None" if kind == "ret" else one_line(n))  # type: ignore[attr-defined]
        if rx.search(text):
            out.append(n)
    return out


def run_gates(prog: Program, report: Report, table: list, pid: str) -> None:
    n = 0
    for g in table:
        if pid not in g.props:
            continue
        if g.rule not in report.rules:
            report.rules.append(g.rule)
        v = view(prog, g.fn)
        targets = find_targets(v, g.kind, g.target)
        if len(targets) < g.min:
            raise AnalysisError(f"{g.rule}: {g.fn}: target /{g.target}/ found {len(targets)} time(s), expected at least {g.min} (table needs maintenance)")
        if isinstance(g, Gate):
            if g.max is not None and len(targets) > g.max:
                raise AnalysisError(f"{g.rule}: {g.fn}: target /{g.target}/ found {len(targets)} times, expected at most {g.max}")
            for t in targets:
                n += 1
                require(report, g.rule, v, t, g.needs, g.why.split(";")[0], g.why)
        else:
            rx = re.compile(g.through)
            through = []
            for cn in v.cfg.nodes:
                if cn.node is None or cn.kind in ("T", "F", "entry", "exit", "raise", "join", "handler", "for-iter", "for-next", "for-exit"):
                    continue
                if rx.search(one_line(cn.node)):
                    through.append(cn)
            for t in targets:
                n += 1
                tn = v.cfg.node_for(t)
                if tn is None:
                    raise AnalysisError(f"{g.rule}: {g.fn}: no CFG node for target {one_line(t)[:60]}")
                thr = [x for x in through if x is not tn]
                ok = bool(thr) and v.cfg.must_pass(tn, thr)
                if ok:
                    report.ob(g.rule, g.fn, f"every path to [{one_line(t)[:80]}] passes /{g.through}/")
                else:
                    report.violate(g.rule, v.fn, t, f"{g.why.split(';')[0]}: {one_line(t)[:100]}", f"{g.why}; a path from the function entry reaches this statement without passing `{g.through}`", what=f"every path to the target passes /{g.through}/")
    report.count("RG gate/pass obligations", n)
