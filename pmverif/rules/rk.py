"""RK - vocabulary agreement: spec keys, JSON writer/reader keys, step
registry, content-expression kinds."""

from __future__ import annotations

import ast

from ..core import AnalysisError, Func, Program, Report, src, walk_own

SCHEMA = "prosemirror/model/schema.py"


def typeddict_keys(prog: Program, clsname: str) -> set[str]:
    _, c = prog.cls(f"{SCHEMA}::{clsname}")
    return {s.target.id for s in c.body if isinstance(s, ast.AnnAssign) and isinstance(s.target, ast.Name)}


def rule_rk_spec(prog: Program, report: Report) -> None:
    """Every literal key used to read a NodeType/MarkType/Schema `.spec` is a
    declared key of NodeSpec / MarkSpec / SchemaSpec."""
    report.rules.append("RK-spec")
    keys = {k: typeddict_keys(prog, k) for k in ("NodeSpec", "MarkSpec", "SchemaSpec")}
    allkeys = set().union(*keys.values())
    tm = prog.types
    n = 0
    for fn in prog.all_funcs():
        for node in walk_own(fn.node):
            key, recv, site = None, None, node
            if isinstance(node, ast.Call) and isinstance(node.func, ast.Attribute) and node.func.attr == "get" and node.args and isinstance(node.args[0], ast.Constant) and isinstance(node.args[0].value, str):
                recv, key = node.func.value, node.args[0].value
            elif isinstance(node, ast.Subscript) and isinstance(node.slice, ast.Constant) and isinstance(node.slice.value, str):
                recv, key = node.value, node.slice.value
            elif isinstance(node, ast.Compare) and len(node.ops) == 1 and isinstance(node.ops[0], (ast.In, ast.NotIn)) and isinstance(node.left, ast.Constant) and isinstance(node.left.value, str):
                recv, key = node.comparators[0], node.left.value
            if recv is None or key is None:
                continue
            is_spec = (isinstance(recv, ast.Attribute) and recv.attr == "spec") or (isinstance(recv, ast.Name) and recv.id == "spec")
            if not is_spec:
                continue
            valid = _td_keys_of(tm, fn, recv) or allkeys
            n += 1
            if key in valid:
                report.ob("RK-spec", fn.key, f"spec key \"{key}\" is declared")
            else:
                near = sorted(k for k in valid if k[:4] == key[:4])
                report.violate("RK-spec", fn, site, f"undeclared spec key \"{key}\"", f"`{' '.join(src(site).split())[:80]}` reads a key that no NodeSpec/MarkSpec/SchemaSpec declares, so it is always absent and the branch it guards never runs" + (f" (did you mean {near}?)" if near else ""), what="spec keys read are declared TypedDict keys")
    report.count("RK spec-key reads", n)
    report.expect_at_least("RK-spec", "spec-key reads", n, 35)


def _td_keys_of(tm, fn: Func, recv: ast.expr) -> set[str] | None:
    from mypy.types import TypedDictType, UnionType, get_proper_type

    t = tm.proper(fn.module, recv)
    if t is None:
        return None
    items = [get_proper_type(i) for i in t.items] if isinstance(t, UnionType) else [t]
    out: set[str] = set()
    for it in items:
        if isinstance(it, TypedDictType):
            out |= set(it.items.keys())
    return out or None


# ------------------------------------------------------------------- JSON
def _written_keys(fn: ast.AST) -> dict[str, bool]:
    """key -> written unconditionally? (dict displays incl. {**x, 'k': v})"""
    out: dict[str, bool] = {}
    for d in walk_own(fn):
        if isinstance(d, ast.Dict):
            cond = False
            cur = d
            from ..core import parent_of

            p = parent_of(cur)
            while p is not None and p is not fn:
                if isinstance(p, (ast.If, ast.IfExp, ast.For, ast.While)):
                    cond = True
                p = parent_of(p)
            for k in d.keys:
                if isinstance(k, ast.Constant) and isinstance(k.value, str):
                    out[k.value] = out.get(k.value, False) or not cond
    return out


def _read_keys(fn: ast.AST, var: str = "json_data") -> dict[str, set[str]]:
    """key -> {'get','index'}"""
    out: dict[str, set[str]] = {}
    for n in walk_own(fn):
        if isinstance(n, ast.Subscript) and isinstance(n.value, ast.Name) and n.value.id == var and isinstance(n.slice, ast.Constant) and isinstance(n.slice.value, str):
            out.setdefault(n.slice.value, set()).add("index")
        if isinstance(n, ast.Call) and isinstance(n.func, ast.Attribute) and n.func.attr == "get" and isinstance(n.func.value, ast.Name) and n.func.value.id == var and n.args and isinstance(n.args[0], ast.Constant):
            out.setdefault(n.args[0].value, set()).add("get")
    return out


JSON_PAIRS = [
    # (writer functions, reader function, reader's data variable)
    (["prosemirror/model/node.py::Node.to_json", "prosemirror/model/node.py::TextNode.to_json"], "prosemirror/model/node.py::Node.from_json", "json_data"),
    (["prosemirror/model/mark.py::Mark.to_json"], "prosemirror/model/mark.py::Mark.from_json", "json_data"),
    (["prosemirror/model/replace.py::Slice.to_json"], "prosemirror/model/replace.py::Slice.from_json", "json_data"),
    (["prosemirror/transform/replace_step.py::ReplaceStep.to_json"], "prosemirror/transform/replace_step.py::ReplaceStep.from_json", "json_data"),
    (["prosemirror/transform/replace_step.py::ReplaceAroundStep.to_json"], "prosemirror/transform/replace_step.py::ReplaceAroundStep.from_json", "json_data"),
    (["prosemirror/transform/mark_step.py::AddMarkStep.to_json"], "prosemirror/transform/mark_step.py::AddMarkStep.from_json", "json_data"),
    (["prosemirror/transform/mark_step.py::RemoveMarkStep.to_json"], "prosemirror/transform/mark_step.py::RemoveMarkStep.from_json", "json_data"),
    (["prosemirror/transform/mark_step.py::AddNodeMarkStep.to_json"], "prosemirror/transform/mark_step.py::AddNodeMarkStep.from_json", "json_data"),
    (["prosemirror/transform/mark_step.py::RemoveNodeMarkStep.to_json"], "prosemirror/transform/mark_step.py::RemoveNodeMarkStep.from_json", "json_data"),
    (["prosemirror/transform/attr_step.py::AttrStep.to_json"], "prosemirror/transform/attr_step.py::AttrStep.from_json", "json_data"),
    (["prosemirror/transform/doc_attr_step.py::DocAttrStep.to_json"], "prosemirror/transform/doc_attr_step.py::DocAttrStep.from_json", "json_data"),
]


def rule_rk_json(prog: Program, report: Report) -> None:
    report.rules.append("RK-json")
    for writers, reader, var in JSON_PAIRS:
        written: dict[str, bool] = {}
        for w in writers:
            for k, unc in _written_keys(prog.func(w).node).items():
                # a key written by only one of several writers (TextNode's "text") is conditional
                written[k] = written.get(k, False) or (unc and len(writers) == 1) or (unc and w == writers[0])
        if len(writers) > 1:
            firstkeys = _written_keys(prog.func(writers[0]).node)
            for w in writers[1:]:
                for k in _written_keys(prog.func(w).node):
                    if k not in firstkeys:
                        written[k] = False
        read = _read_keys(prog.func(reader).node, var)
        rfn = prog.func(reader)
        # the reader may hand the data object to helpers of its module: keys they read count
        # (one level; `_marks_from_json(schema, json_data)`)
        for c in walk_own(rfn.node):
            if isinstance(c, ast.Call) and isinstance(c.func, ast.Name):
                hk = f"{rfn.module.rel}::{c.func.id}"
                if prog.has_func(hk):
                    h = prog.func(hk)
                    for i, a in enumerate(c.args):
                        if isinstance(a, ast.Name) and a.id == var and i < len(h.params()):
                            for k_, how in _read_keys(h.node, h.params()[i]).items():
                                read.setdefault(k_, set()).update(how)
        for k, unc in sorted(written.items()):
            if k == "stepType":
                continue
            if k not in read:
                report.violate("RK-json", rfn, rfn.node, f"key \"{k}\" written but never read", f"{writers[0].split('::')[1]} emits \"{k}\" but {reader.split('::')[1]} does not read it: the field is lost in a JSON round trip", what=f"every key written by {writers[0].split('::')[1]} is read back")
            elif not unc and "index" in read[k] and "get" not in read[k] and not _index_guarded(prog, reader, var, k):
                report.violate("RK-json", rfn, rfn.node, f"optional key \"{k}\" read with []", f"\"{k}\" is written only under a condition but read as {var}[\"{k}\"] without a presence test: decoding the writer's own output raises KeyError", what="conditionally written keys are read with .get or under a presence test")
            else:
                report.ob("RK-json", reader, f"key \"{k}\" ({'always' if unc else 'conditionally'} written) is read via {sorted(read[k])}")
        for k in sorted(read):
            if k not in written and k != "stepType":
                report.violate("RK-json", rfn, rfn.node, f"key \"{k}\" read but never written", f"{reader.split('::')[1]} reads \"{k}\", which {writers[0].split('::')[1]} never emits (vocabulary mismatch between writer and reader)", what="every key read is written")
    report.count("RK json writer/reader pairs", len(JSON_PAIRS))


def _index_guarded(prog: Program, reader: str, var: str, key: str) -> bool:
    """json_data["k"] appears only under a truthiness/equality test involving the data (Node.from_json's "text"/"type")."""
    from ..gates import view

    v = view(prog, reader)
    for n in walk_own(v.fn.node):
        if isinstance(n, ast.Subscript) and isinstance(n.value, ast.Name) and n.value.id == var and isinstance(n.slice, ast.Constant) and n.slice.value == key:
            g = v.guards(n, resolve=False)
            if not any(var in f for f in g):
                return False
    return True


def rule_rk_registry(prog: Program, report: Report) -> None:
    """Every concrete Step subclass is registered by exactly one module-level
    step_json_id("<id>", C), C.to_json emits "stepType": "<id>", the module is
    imported by the package (so the registration runs), and Step.from_json
    dispatches through STEPS_BY_ID."""
    report.rules.append("RK-registry")
    tm = prog.types
    subs = tm.subclasses_of("prosemirror.transform.step.Step")
    regs: dict[str, list[tuple[str, str]]] = {}
    for m in prog.modules.values():
        for s in m.tree.body:
            if isinstance(s, ast.Expr) and isinstance(s.value, ast.Call) and isinstance(s.value.func, ast.Name) and s.value.func.id == "step_json_id" and len(s.value.args) == 2:
                a, b = s.value.args
                if isinstance(a, ast.Constant) and isinstance(b, ast.Name):
                    regs.setdefault(f"{m.name}.{b.id}", []).append((a.value, m.rel))
    ids: dict[str, str] = {}
    for full in subs:
        modname, _, cls = full.rpartition(".")
        rel = modname.replace(".", "/") + ".py"
        r = regs.get(full, [])
        where = f"{rel}::{cls}"
        if len(r) != 1:
            report.violate("RK-registry", where, None, f"{cls} registered {len(r)} times", f"the Step subclass {cls} must be registered by exactly one module-level step_json_id(\"<id>\", {cls}); found {len(r)}: Step.from_json cannot decode it", what=f"{cls} is registered exactly once")
            continue
        sid = r[0][0]
        if sid in ids:
            report.violate("RK-registry", where, None, f"duplicate step id \"{sid}\"", f"{cls} and {ids[sid]} register the same id", what="step ids are unique")
        ids[sid] = cls
        tj = prog.func(f"{rel}::{cls}.to_json")
        lits = [src(v) for d in walk_own(tj.node) if isinstance(d, ast.Dict) for k, v in zip(d.keys, d.values) if isinstance(k, ast.Constant) and k.value == "stepType"]
        if lits != [repr(sid)]:
            report.violate("RK-registry", tj, tj.node, f"{cls}.to_json stepType {lits} != registered id \"{sid}\"", "the published name written by to_json must be the id the class is registered under, or the step decodes as a different type / not at all", what=f"{cls}.to_json emits its registered id")
        else:
            report.ob("RK-registry", tj.key, f"{cls}: registered once as \"{sid}\" and to_json emits \"stepType\": \"{sid}\"")
        # import reachability from the package's transform/__init__
        if not _imported(prog, rel):
            report.violate("RK-registry", where, None, f"module {rel} is never imported by the package", "the registration statement only runs if the module is imported", what="registering module is imported")
    sf = prog.func("prosemirror/transform/step.py::Step.from_json")
    if "STEPS_BY_ID.get" not in src(sf.node) or ".from_json(schema, json_data)" not in src(sf.node):
        raise AnalysisError("RK-registry: Step.from_json no longer dispatches through STEPS_BY_ID (unrecognised idiom)")
    report.ob("RK-registry", sf.key, "Step.from_json dispatches through STEPS_BY_ID[json_data['stepType']]")
    report.count("RK Step subclasses", len(subs))
    report.expect_at_least("RK-registry", "Step subclasses", len(subs), 8)


def _module_level_imports(prog: Program, m) -> set[str]:
    """rels of package modules imported by module-level statements of m
    (imports inside functions or under TYPE_CHECKING do not run at import time)."""
    out: set[str] = set()
    pkg = m.name.split(".")
    base = pkg if m.rel.endswith("__init__.py") else pkg[:-1]

    def rel_of(mod: str) -> str | None:
        for cand in (mod.replace(".", "/") + ".py", mod.replace(".", "/") + "/__init__.py"):
            if cand in prog.modules:
                return cand
        return None

    def visit(stmts) -> None:
        for n in stmts:
            if isinstance(n, ast.ImportFrom):
                mod = ".".join(base[: len(base) - (n.level - 1)] + ([n.module] if n.module else [])) if n.level else (n.module or "")
                r = rel_of(mod)
                if r:
                    out.add(r)
                for a in n.names:
                    r2 = rel_of(mod + "." + a.name)
                    if r2:
                        out.add(r2)
            elif isinstance(n, ast.Import):
                for a in n.names:
                    r = rel_of(a.name)
                    if r:
                        out.add(r)
            elif isinstance(n, ast.If) and "TYPE_CHECKING" not in src(n.test):
                visit(n.body)
                visit(n.orelse)
            elif isinstance(n, ast.Try):
                visit(n.body)
    visit(m.tree.body)
    # importing a submodule imports its packages' __init__ first
    for r in list(out):
        parts = r.split("/")
        for i in range(1, len(parts)):
            init = "/".join(parts[:i]) + "/__init__.py"
            if init in prog.modules:
                out.add(init)
    return out


def _imported(prog: Program, rel: str) -> bool:
    """Is `rel` imported (transitively, at module level) when `prosemirror.transform` is imported?"""
    roots = ["prosemirror/transform/__init__.py"]
    seen = set(roots)
    st = list(roots)
    while st:
        r = st.pop()
        for nx in _module_level_imports(prog, prog.modules[r]):
            if nx not in seen:
                seen.add(nx)
                st.append(nx)
    return rel in seen


def rule_rk_kinds(prog: Program, report: Report) -> None:
    """Content-expression kinds: literals produced by the parser = kinds
    nfa.compile branches on = Literal tags of the Expr union."""
    report.rules.append("RK-kinds")
    rel = "prosemirror/model/content.py"
    m = prog.module(rel)
    produced: set[str] = set()
    for fn in prog.all_funcs():
        if fn.module.rel == rel and fn.qual.startswith("parse_expr"):
            for d in walk_own(fn.node):
                if isinstance(d, ast.Dict):
                    for k, v in zip(d.keys, d.values):
                        if isinstance(k, ast.Constant) and k.value == "type" and isinstance(v, ast.Constant):
                            produced.add(v.value)
    for fn in prog.all_funcs():
        if fn.module.rel == rel and fn.qual.startswith("parse_expr_atom."):
            for d in walk_own(fn.node):
                if isinstance(d, ast.Dict):
                    for k, v in zip(d.keys, d.values):
                        if isinstance(k, ast.Constant) and k.value == "type" and isinstance(v, ast.Constant):
                            produced.add(v.value)
    comp = prog.func(f"{rel}::nfa.compile")
    handled = {c.comparators[0].value for c in walk_own(comp.node) if isinstance(c, ast.Compare) and src(c.left) == "expr['type']" and isinstance(c.comparators[0], ast.Constant)}
    declared: set[str] = set()
    for s in m.tree.body:
        if isinstance(s, ast.ClassDef) and s.name.endswith("Expr"):
            for a in s.body:
                if isinstance(a, ast.AnnAssign) and isinstance(a.target, ast.Name) and a.target.id == "type":
                    for c in ast.walk(a.annotation):
                        if isinstance(c, ast.Constant) and isinstance(c.value, str):
                            declared.add(c.value)
    if not produced or not handled:
        raise AnalysisError("RK-kinds: could not extract expression kinds (idiom changed)")
    for k in sorted(produced | handled | declared):
        ok = k in produced and k in handled and k in declared
        if ok:
            report.ob("RK-kinds", comp.key, f"kind \"{k}\": produced by the parser, compiled by nfa, declared in the Expr union")
        else:
            report.violate("RK-kinds", comp, comp.node, f"expression kind \"{k}\" not handled consistently", f"kind \"{k}\": produced={k in produced} compiled={k in handled} declared={k in declared}; an expression kind the compiler does not handle makes nfa.compile return None (crash or wrong automaton)", what="expression kinds agree between parser, compiler and type")
    # compile must not fall through without returning
    report.count("RK expression kinds", len(produced | handled | declared))
    report.expect_at_least("RK-kinds", "expression kinds", len(handled), 7)


def rule_rk_bundled(prog: Program, report: Report) -> None:
    """Bundled schemas: a parse rule's getAttrs supplies every attribute of its
    node/mark that has no default (an element lacking the attribute yields None,
    which is a value; a missing key makes compute_attrs raise)."""
    report.rules.append("RK-bundled")
    n = 0
    for rel in ("prosemirror/schema/basic/schema_basic.py", "prosemirror/schema/list/schema_list.py"):
        m = prog.module(rel)
        for d in ast.walk(m.tree):
            if not isinstance(d, ast.Dict):
                continue
            keys = {k.value: v for k, v in zip(d.keys, d.values) if isinstance(k, ast.Constant)}
            if "attrs" not in keys or "parseDOM" not in keys or not isinstance(keys["attrs"], ast.Dict):
                continue
            required = [k.value for k, v in zip(keys["attrs"].keys, keys["attrs"].values) if isinstance(k, ast.Constant) and isinstance(v, ast.Dict) and not any(isinstance(kk, ast.Constant) and kk.value == "default" for kk in v.keys)]
            if not required or not isinstance(keys["parseDOM"], ast.List):
                continue
            for rule in keys["parseDOM"].elts:
                if not isinstance(rule, ast.Dict):
                    continue
                rk = {k.value: v for k, v in zip(rule.keys, rule.values) if isinstance(k, ast.Constant)}
                if "tag" not in rk:
                    continue
                n += 1
                where = f"{rel}::<spec with attrs {required}>"
                ga = rk.get("getAttrs")
                static = rk.get("attrs")
                supplied: set[str] | None = None
                if isinstance(ga, ast.Lambda) and isinstance(ga.body, ast.Dict):
                    supplied = {k.value for k in ga.body.keys if isinstance(k, ast.Constant)}
                elif isinstance(static, ast.Dict):
                    supplied = {k.value for k in static.keys if isinstance(k, ast.Constant)}
                elif ga is None and static is None:
                    supplied = set()
                if supplied is None:
                    report.errors.append(f"RK-bundled: {rel}: rule {src(rk['tag'])} builds its attrs by an unrecognised idiom (cannot see which keys it supplies)")
                    continue
                missing = [r for r in required if r not in supplied]
                if missing:
                    report.violate("RK-bundled", where, rule, f"parse rule {src(rk['tag'])} does not supply {missing}", f"the attribute(s) {missing} have no default; a rule that does not always supply the key makes DOMParser.parse raise 'No value supplied for attribute' on an element that lacks it (HTML import must be total)", what="bundled parse rules supply every attribute without default")
                else:
                    report.ob("RK-bundled", where, f"rule {src(rk['tag'])} always supplies {required}")
    report.count("RK bundled parse rules with required attrs", n)
    report.expect_at_least("RK-bundled", "bundled parse rules with required attrs", n, 2)


def rule_rk_json_falsy(prog: Program, report: Report) -> None:
    """A JSON key written only when its value is truthy loses every falsy value
    but the one the reader substitutes.  Allowed: a value whose static type has
    a single falsy inhabitant (an int written when > 0 with reader default 0, a
    bool with default False, a mapping/list with 'empty' default).  A value of
    the JSON union type has many (0, False, "", [], {}, None): omitting the key
    for all of them decodes them all to None."""
    from ..gates import view

    report.rules.append("RK-json-falsy")
    tm = prog.types
    n = 0
    for fn in prog.all_funcs():
        if fn.name != "to_json":
            continue
        v = view(prog, fn.key)
        for d in walk_own(fn.node):
            if not isinstance(d, ast.Dict):
                continue
            for k, val in zip(d.keys, d.values):
                if not (isinstance(k, ast.Constant) and isinstance(k.value, str)):
                    continue
                guards = v.cfg.guards_at(val)
                for atom, outcome in guards:
                    if not outcome or isinstance(atom, (ast.Compare, ast.Call)):
                        continue
                    if src(atom) not in src(val):
                        continue  # the condition is about something else
                    names = set(tm.instance_names(fn.module, atom))
                    classes = set()
                    for nm in names:
                        if nm in ("builtins.int", "builtins.float"):
                            classes.add("number")
                        elif nm == "builtins.bool":
                            classes.add("bool")
                        elif nm == "builtins.str":
                            classes.add("str")
                        elif nm in ("builtins.list", "typing.Sequence", "builtins.tuple"):
                            classes.add("list")
                        elif nm in ("builtins.dict", "typing.Mapping"):
                            classes.add("dict")
                        elif nm == "Any":
                            classes.add("any")
                    n += 1
                    if len(classes) > 1 or "any" in classes:
                        report.violate("RK-json-falsy", fn, val, f"key \"{k.value}\" is written only when `{src(atom)}` is truthy", f"`{src(atom)}` has type {tm.text(fn.module, atom)}: its falsy values (0, False, \"\", [], {{}}) are all different values, but omitting the key makes the reader decode every one of them as absent/None - the field does not survive a JSON round trip", what="an optional JSON key is omitted for at most one value")
                    else:
                        report.ob("RK-json-falsy", fn.key, f"key \"{k.value}\" omitted only for the single falsy value of `{src(atom)}` ({'/'.join(sorted(classes)) or 'object'})")
    report.count("RK truthiness-guarded JSON keys", n)


# ------------------------------------------------------------------ RK-tags / RX-conv
def _const_eval(e: ast.AST, env: dict) -> object:
    """Constant folding of the literal forms a rule list is written in (displays, f-strings,
    `+`, str(), range(), one-generator comprehensions); raises ValueError on anything else."""
    if isinstance(e, ast.Constant):
        return e.value
    if isinstance(e, ast.Name):
        if e.id in env:
            return env[e.id]
        raise ValueError(e.id)
    if isinstance(e, ast.JoinedStr):
        out = ""
        for v in e.values:
            if isinstance(v, ast.Constant):
                out += str(v.value)
            elif isinstance(v, ast.FormattedValue) and v.format_spec is None and v.conversion == -1:
                out += str(_const_eval(v.value, env))
            else:
                raise ValueError("f-string")
        return out
    if isinstance(e, ast.BinOp) and isinstance(e.op, ast.Add):
        a, b = _const_eval(e.left, env), _const_eval(e.right, env)
        if type(a) is type(b) and isinstance(a, (str, int, list)):
            return a + b  # type: ignore[operator]
        raise ValueError("+")
    if isinstance(e, ast.Call) and isinstance(e.func, ast.Name) and not e.keywords:
        args = [_const_eval(a, env) for a in e.args]
        if e.func.id == "str" and len(args) == 1:
            return str(args[0])
        if e.func.id == "range" and 1 <= len(args) <= 3 and all(isinstance(a, int) for a in args):
            return list(range(*args))  # type: ignore[arg-type]
        raise ValueError(e.func.id)
    if isinstance(e, (ast.List, ast.Tuple)):
        out_l: list = []
        for x in e.elts:
            if isinstance(x, ast.Starred):
                v = _const_eval(x.value, env)
                if not isinstance(v, list):
                    raise ValueError("*")
                out_l += v
            else:
                out_l.append(_const_eval(x, env))
        return out_l
    if isinstance(e, ast.Dict):
        d = {}
        for k, v in zip(e.keys, e.values):
            if k is None:
                raise ValueError("**")
            kk = _const_eval(k, env)
            try:
                d[kk] = _const_eval(v, env)
            except ValueError:
                d[kk] = v  # a lambda etc.: kept as syntax
        return d
    if isinstance(e, ast.ListComp) and len(e.generators) == 1 and not e.generators[0].ifs and isinstance(e.generators[0].target, ast.Name):
        it = _const_eval(e.generators[0].iter, env)
        if not isinstance(it, list):
            raise ValueError("iter")
        return [_const_eval(e.elt, {**env, e.generators[0].target.id: x}) for x in it]
    raise ValueError(type(e).__name__)


HEADING_LEVELS = (1, 2, 3, 4, 5, 6)  # HTML has h1..h6; the bundled heading exports `h{level}`


def rule_rk_tags(prog: Program, report: Report) -> None:
    """Bundled schemas: what a node or mark is exported as is recognised on import - for every
    element name its toDOM can produce there is a parse rule of the same spec with that tag
    (the export/import identity of C19 starts there)."""
    report.rules.append("RK-tags")
    n = 0
    for rel in ("prosemirror/schema/basic/schema_basic.py", "prosemirror/schema/list/schema_list.py"):
        m = prog.module(rel)
        consts = {}
        for st in m.tree.body:
            if isinstance(st, ast.Assign) and len(st.targets) == 1 and isinstance(st.targets[0], ast.Name):
                consts[st.targets[0].id] = st.value
            elif isinstance(st, ast.AnnAssign) and isinstance(st.target, ast.Name) and st.value is not None:
                consts[st.target.id] = st.value
        for d in ast.walk(m.tree):
            if not isinstance(d, ast.Dict):
                continue
            keys = {k.value: v for k, v in zip(d.keys, d.values) if isinstance(k, ast.Constant)}
            if "parseDOM" not in keys or "toDOM" not in keys:
                continue
            td = keys["toDOM"]
            body = td.body if isinstance(td, ast.Lambda) else None
            if isinstance(body, ast.Name) and body.id in consts:
                body = consts[body.id]
            if not isinstance(body, (ast.List, ast.Tuple)) or not body.elts:
                report.errors.append(f"RK-tags: {rel}: a toDOM at line {getattr(td, 'lineno', 0)} is not a list display (unrecognised idiom; found 0 time(s) in a recognised form)")
                continue
            head = body.elts[0]
            out_tags: list[str]
            if isinstance(head, ast.Constant) and isinstance(head.value, str):
                out_tags = [head.value]
            elif isinstance(head, ast.JoinedStr) and len(head.values) == 2 and isinstance(head.values[0], ast.Constant) and head.values[0].value == "h":
                out_tags = [f"h{i}" for i in HEADING_LEVELS]
            else:
                report.errors.append(f"RK-tags: {rel}: the element name `{src(head)[:40]}` of a toDOM is computed in an unrecognised way (found 0 time(s) in a recognised form)")
                continue
            try:
                rules = _const_eval(keys["parseDOM"], {})
            except ValueError as ex:
                report.errors.append(f"RK-tags: {rel}: the parseDOM list next to `{src(head)[:30]}` cannot be folded to a literal ({ex}); found 0 time(s) in a recognised form")
                continue
            tags = [r.get("tag") for r in rules if isinstance(r, dict) and isinstance(r.get("tag"), str)]  # type: ignore[union-attr]
            for t in out_tags:
                n += 1
                if any(x == t or x.startswith(t + "[") or x.startswith(t + ".") or x.startswith(t + ":") for x in tags):
                    report.ob("RK-tags", rel, f"<{t}> written by toDOM is read back by a parse rule of the same spec")
                else:
                    report.violate("RK-tags", f"{rel}::<spec exporting {out_tags[0]}..>", keys["parseDOM"], f"exported <{t}> has no parse rule", f"the spec's toDOM writes <{t}> but its parseDOM rules only know {sorted(tags)}: a document exported to HTML and parsed back loses this node (it degrades to the default block or is dropped)", what="every exported element name has a parse rule in the same spec")
    report.count("RK-tags exported element names", n)
    report.expect_at_least("RK-tags", "exported element names", n, 16)


def rule_rx_conv(prog: Program, report: Report) -> None:
    """HTML import is total: an attribute string taken from the DOM is not converted with int() /
    float() outside a `try` - `<ol start="iii">` must not make the parser raise."""
    from ..core import parent_of

    report.rules.append("RX-conv")
    n = 0
    for rel in ("prosemirror/schema/basic/schema_basic.py", "prosemirror/schema/list/schema_list.py", "prosemirror/model/from_dom.py"):
        m = prog.module(rel)
        for c in ast.walk(m.tree):
            if isinstance(c, ast.Call) and isinstance(c.func, ast.Name) and c.func.id in ("int", "float") and c.args:
                arg = c.args[0]
                if not any(isinstance(x, ast.Call) and isinstance(x.func, ast.Attribute) and x.func.attr in ("get", "attrib", "text_content") for x in ast.walk(arg)):
                    continue
                n += 1
                cur = parent_of(c)
                guarded = False
                while cur is not None:
                    if isinstance(cur, ast.Try) and any(h.type is None or "ValueError" in src(h.type) or "Exception" in src(h.type) for h in cur.handlers):
                        guarded = True
                        break
                    cur = parent_of(cur)
                if guarded:
                    report.ob("RX-conv", rel, f"`{src(c)[:50]}` converts a DOM attribute inside a try that handles ValueError")
                else:
                    report.violate("RX-conv", rel, c, f"`{src(c)[:60]}` converts a DOM attribute string unguarded", f"`{src(c)[:60]}` raises ValueError / TypeError for an element whose attribute is missing or not a number; parsing arbitrary HTML must not raise", what="numeric conversions of DOM attributes are guarded")
    report.count("RX-conv numeric conversions of DOM attributes", n)
