"""RT  - None/empty conflation of a lazily created copy.
RT2 - absent/None conflation on a mapping that may hold None."""

from __future__ import annotations

import ast

from ..cfg import atoms
from ..core import Func, Program, Report, parent_of, src, walk_own
from ..gates import view
from ..norm import fact_set


def truth_tests(fn: ast.AST) -> list[tuple[ast.expr, ast.AST]]:
    """Atomic expressions whose truthiness decides control or value in fn."""
    out: list[tuple[ast.expr, ast.AST]] = []

    def add(test: ast.expr, site: ast.AST) -> None:
        for a, _ in atoms(test, True):
            if isinstance(a, ast.BoolOp):
                for v in a.values:
                    add(v, site)
            elif isinstance(a, ast.UnaryOp) and isinstance(a.op, ast.Not):
                add(a.operand, site)
            else:
                out.append((a, site))

    for n in walk_own(fn):
        if isinstance(n, (ast.If, ast.While, ast.Assert, ast.IfExp)):
            add(n.test, n)
        elif isinstance(n, ast.comprehension):
            for c in n.ifs:
                add(c, n)
        elif isinstance(n, ast.BoolOp):
            par = parent_of(n)
            in_test = isinstance(par, (ast.If, ast.While, ast.Assert, ast.IfExp)) and getattr(par, "test", None) is n
            if not in_test:
                for v in n.values[:-1]:
                    add(v, n)
        elif isinstance(n, ast.UnaryOp) and isinstance(n.op, ast.Not):
            add(n.operand, n)
    # de-duplicate by node identity
    seen: set[int] = set()
    res = []
    for a, s in out:
        if id(a) not in seen:
            seen.add(id(a))
            res.append((a, s))
    return res


def _is_none(e: ast.expr | None) -> bool:
    return isinstance(e, ast.Constant) and e.value is None


def _prefix_copy(e: ast.expr) -> ast.expr | None:
    """S[0:i] / S[:i] with a non-constant upper bound -> the bound."""
    if isinstance(e, ast.Subscript) and isinstance(e.slice, ast.Slice):
        sl = e.slice
        lower_zero = sl.lower is None or (isinstance(sl.lower, ast.Constant) and sl.lower.value == 0)
        if lower_zero and sl.upper is not None and not isinstance(sl.upper, ast.Constant) and sl.step is None:
            return sl.upper
    return None


def rule_rt(prog: Program, report: Report, only: set[str] | None = None) -> None:
    """For every local with a `= None` definition and a prefix-copy definition
    that may be empty: no truthiness test of that local."""
    report.rules.append("RT")
    instances = 0
    for fn in prog.all_funcs():
        none_defs: dict[str, ast.AST] = {}
        copy_defs: dict[str, list[tuple[ast.AST, ast.expr]]] = {}
        for n in walk_own(fn.node):
            tgt, val = None, None
            if isinstance(n, ast.Assign) and len(n.targets) == 1 and isinstance(n.targets[0], ast.Name):
                tgt, val = n.targets[0].id, n.value
            elif isinstance(n, ast.AnnAssign) and isinstance(n.target, ast.Name) and n.value is not None:
                tgt, val = n.target.id, n.value
            if tgt is None or val is None:
                continue
            if _is_none(val):
                none_defs[tgt] = n
            else:
                b = _prefix_copy(val)
                if b is not None:
                    copy_defs.setdefault(tgt, []).append((n, b))
        for name in sorted(set(none_defs) & set(copy_defs)):
            if only is not None and fn.key not in only:
                continue
            v = view(prog, fn.key)
            may_be_empty = []
            for d, bound in copy_defs[name]:
                g = v.guards(d, resolve=False)
                b = src(bound)
                if f"truthy({b})" in g or f"0 < {b}" in g or f"1 <= {b}" in g or f"{b} != 0" in g or f"0 != {b}" in g:
                    continue  # bound provably >= 1 at the definition
                may_be_empty.append(d)
            instances += 1
            tests = [(a, s) for a, s in truth_tests(fn.node) if isinstance(a, ast.Name) and a.id == name]
            if not may_be_empty:
                report.ob("RT", fn.key, f"lazy copy `{name}`: every prefix-copy definition has a bound >= 1, truthiness tests are exact ({len(tests)} tests)")
                continue
            if tests:
                for a, s in tests:
                    line = " ".join(src(s).split())[:90] if not isinstance(s, (ast.If, ast.While)) else "if " + src(s.test)
                    report.violate(
                        "RT",
                        fn,
                        a,
                        f"truthiness test of lazily created copy `{name}`",
                        f"`{name}` is None until the first change and then a prefix copy that may be empty (`{src(may_be_empty[0])}`); testing it by truthiness treats the empty copy as 'no copy yet' (upstream: [] is truthy)",
                        witness=[f"test site: {line}", f"None definition line {none_defs[name].lineno}, prefix copy line {may_be_empty[0].lineno}"],
                        what=f"lazy copy `{name}` is tested with `is None`/`is not None` only",
                    )
            else:
                report.ob("RT", fn.key, f"lazy copy `{name}` (None / possibly-empty prefix copy) is never tested by truthiness")
    report.count("RT lazy-copy locals", instances)
    report.expect_at_least("RT", "lazy-copy locals", instances if only else instances, 1 if only else 3)


def rule_rt_xref(prog: Program, report: Report) -> None:
    """Cross-reference (reported, not armed): boolean tests of values whose
    static type is Optional[<sized container>]."""
    tm = prog.types
    hits = []
    for fn in prog.all_funcs():
        for a, s in truth_tests(fn.node):
            names = tm.instance_names(fn.module, a)
            if "None" in names and any(n in ("builtins.list", "builtins.dict", "builtins.str", "builtins.tuple", "builtins.set") or n.startswith("TypedDict:") for n in names):
                hits.append(f"{fn.key}: {src(a)} : {'|'.join(names)}")
    report.xref["RT optional-container truth tests (not armed)"] = hits
    report.count("RT xref optional-container truth tests", len(hits))


# ---------------------------------------------------------------------- RT2
def _mapping_value_admits_none(tm, m, recv: ast.expr) -> bool | None:
    from mypy.types import AnyType, Instance, NoneType, UnionType, get_proper_type

    t = tm.proper(m, recv)
    items = [t]
    if isinstance(t, UnionType):
        items = [get_proper_type(i) for i in t.items]
    for it in items:
        if isinstance(it, Instance) and it.type.has_readable_member("get") and len(it.args) == 2:
            v = get_proper_type(it.args[1])
            if isinstance(v, AnyType):
                return None
            vs = [get_proper_type(x) for x in v.items] if isinstance(v, UnionType) else [v]
            if any(isinstance(x, NoneType) for x in vs):
                return True
            return False
    return None


def rule_rt2(prog: Program, report: Report, armed: tuple[str, ...] = ("prosemirror/model/schema.py::compute_attrs",)) -> None:
    """`m.get(k)` (no default) compared with None where m's value type admits
    None: the comparison cannot tell absent from present-and-None."""
    report.rules.append("RT2")
    tm = prog.types
    cands = 0
    for fn in prog.all_funcs():
        # names bound to m.get(k)
        gets: dict[str, ast.Call] = {}
        for n in walk_own(fn.node):
            if isinstance(n, ast.Assign) and len(n.targets) == 1 and isinstance(n.targets[0], ast.Name) and _is_get(n.value):
                gets[n.targets[0].id] = n.value  # type: ignore[assignment]
        for n in walk_own(fn.node):
            if not (isinstance(n, ast.Compare) and len(n.ops) == 1 and isinstance(n.ops[0], (ast.Is, ast.IsNot)) and _is_none(n.comparators[0])):
                continue
            call = None
            if _is_get(n.left):
                call = n.left
            elif isinstance(n.left, ast.Name) and n.left.id in gets:
                call = gets[n.left.id]
            if call is None:
                continue
            adm = _mapping_value_admits_none(tm, fn.module, call.func.value)  # type: ignore[union-attr]
            if adm is not True:
                continue
            cands += 1
            if fn.key in armed:
                report.violate(
                    "RT2",
                    fn,
                    n,
                    f"`{src(call)}` compared with None to decide absence",
                    f"the mapping `{src(call.func.value)}` may hold None as a value (type {tm.text(fn.module, call.func.value)}); `{src(n)}` treats an explicit None like a missing key (upstream distinguishes undefined from null) - test membership instead",  # type: ignore[union-attr]
                    what="attribute presence is decided by membership, not by comparing .get() with None",
                )
            else:
                report.xref.setdefault("RT2 candidates outside the armed table (not armed)", []).append(f"{fn.key}: {src(n)}")
    for key in armed:
        fn = prog.func(key)
        has_membership = any(isinstance(n, ast.Compare) and any(isinstance(o, (ast.In, ast.NotIn)) for o in n.ops) for n in walk_own(fn.node))
        if not any(f.where == key and f.rule == "RT2" for f in report.findings):
            if not has_membership:
                # neither the anti-pattern nor a membership test: the defaulting idiom changed
                from ..core import AnalysisError

                raise AnalysisError(f"RT2: {key} decides attribute presence by an unrecognised idiom")
            report.ob("RT2", key, "attribute presence decided by a membership test; no `.get(k) is None` on a mapping that may hold None")
    report.count("RT2 .get()-vs-None candidates on None-admitting mappings", cands)


def _is_get(e: ast.AST) -> bool:
    return isinstance(e, ast.Call) and isinstance(e.func, ast.Attribute) and e.func.attr == "get" and len(e.args) == 1 and not e.keywords
