"""RS - flat record arrays (stride / residue / arity);  RI - guarded index
used after it was advanced."""

from __future__ import annotations

import ast
from itertools import product

from ..core import AnalysisError, Func, Program, Report, parent_of, src, walk_own
from ..gates import view
from ..norm import Resolver, linear, lin_str
from ..paths import TooManyPaths, cond_paths, enum_paths

# field -> (stride, modules in which the field is accessed)
FIELDS = {
    "ranges": (3, "prosemirror/transform/map.py", "StepMap"),
    "mirror": (2, "prosemirror/transform/map.py", "Mapping"),
    "path": (3, "prosemirror/model/resolvedpos.py", "ResolvedPos"),
}
TOP = None  # unknown residue


class Cong:
    """Residue sets modulo k for the integer locals of one function."""

    def __init__(self, fn: ast.AST, k: int, field: str) -> None:
        self.fn = fn
        self.k = k
        self.field = field
        self._memo: dict[str, frozenset[int] | None] = {}
        self._busy: set[str] = set()
        self.defs: dict[str, list[tuple[str, ast.AST]]] = {}
        a = fn.args  # type: ignore[attr-defined]
        self.params = {x.arg for x in [*a.posonlyargs, *a.args, *a.kwonlyargs]}
        for n in walk_own(fn):
            if isinstance(n, ast.Assign):
                for t in n.targets:
                    self._bind(t, n.value)
            elif isinstance(n, ast.AnnAssign) and n.value is not None:
                self._bind(n.target, n.value)
            elif isinstance(n, ast.AugAssign) and isinstance(n.target, ast.Name):
                self.defs.setdefault(n.target.id, []).append(("aug", n))
            elif isinstance(n, (ast.For, ast.comprehension)) and isinstance(n.target, ast.Name):
                self.defs.setdefault(n.target.id, []).append(("for", n.iter))
            elif isinstance(n, ast.NamedExpr) and isinstance(n.target, ast.Name):
                self.defs.setdefault(n.target.id, []).append(("val", n.value))

    def _bind(self, t: ast.AST, v: ast.expr) -> None:
        if isinstance(t, ast.Name):
            self.defs.setdefault(t.id, []).append(("val", v))
        elif isinstance(t, (ast.Tuple, ast.List)):
            if isinstance(v, (ast.Tuple, ast.List)) and len(v.elts) == len(t.elts):
                for a, b in zip(t.elts, v.elts):
                    self._bind(a, b)
            elif isinstance(v, ast.IfExp) and all(isinstance(x, (ast.Tuple, ast.List)) and len(x.elts) == len(t.elts) for x in (v.body, v.orelse)):
                # `a, b = (2, 1) if c else (1, 2)`: element-wise conditional
                for i, a in enumerate(t.elts):
                    self._bind(a, ast.IfExp(test=v.test, body=v.body.elts[i], orelse=v.orelse.elts[i]))  # type: ignore[attr-defined]
            else:
                for a in t.elts:
                    if isinstance(a, ast.Name):
                        self.defs.setdefault(a.id, []).append(("opaque", v))

    def name(self, nm: str) -> frozenset[int] | None:
        if nm in self._memo:
            return self._memo[nm]
        if nm in self._busy or nm in self.params or nm not in self.defs:
            return TOP
        self._busy.add(nm)
        res: set[int] | None = set()
        for kind, node in self.defs[nm]:
            if kind == "val":
                r = self.ev(node)  # type: ignore[arg-type]
            elif kind == "aug":
                d = self.ev(node.value)  # type: ignore[attr-defined]
                r = frozenset() if d == frozenset({0}) and isinstance(node.op, (ast.Add, ast.Sub)) else TOP  # type: ignore[attr-defined]
            elif kind == "for":
                r = self._range(node)  # type: ignore[arg-type]
            else:
                r = TOP
            if r is TOP:
                res = None
                break
            res |= r  # type: ignore[operator]
        self._busy.discard(nm)
        out = frozenset(res) if res is not None else TOP
        self._memo[nm] = out
        return out

    def _range(self, it: ast.expr) -> frozenset[int] | None:
        if isinstance(it, ast.Call) and isinstance(it.func, ast.Name) and it.func.id == "range" and not it.keywords:
            a = it.args
            if len(a) == 3:
                start, step = self.ev(a[0]), self.ev(a[2])
                if step == frozenset({0}) and start is not TOP:
                    return start
                if step is not TOP:
                    return frozenset(range(self.k))  # a stride that is not a multiple of the record size visits every field
                return TOP
            if len(a) in (1, 2):
                return frozenset(range(self.k))  # step 1: every residue
            return TOP
        return TOP

    def ev(self, e: ast.expr, given: dict[str, int] | None = None) -> frozenset[int] | None:
        k = self.k
        if isinstance(e, ast.Constant) and isinstance(e.value, int) and not isinstance(e.value, bool):
            return frozenset({e.value % k})
        if isinstance(e, ast.Name):
            if given and e.id in given:
                return frozenset({given[e.id] % k})
            return self.name(e.id)
        if isinstance(e, ast.UnaryOp) and isinstance(e.op, ast.USub):
            r = self.ev(e.operand, given)
            return frozenset({(-x) % k for x in r}) if r is not TOP else TOP
        if isinstance(e, ast.BinOp):
            if isinstance(e.op, ast.Mult):
                l, r = self.ev(e.left, given), self.ev(e.right, given)
                if l == frozenset({0}) or r == frozenset({0}):
                    return frozenset({0})
                if l is not TOP and r is not TOP:
                    return frozenset({(x * y) % k for x, y in product(l, r)})
                return TOP
            if isinstance(e.op, (ast.Add, ast.Sub)):
                l, r = self.ev(e.left, given), self.ev(e.right, given)
                if l is TOP or r is TOP:
                    return TOP
                s = 1 if isinstance(e.op, ast.Add) else -1
                return frozenset({(x + s * y) % k for x, y in product(l, r)})
            return TOP
        if isinstance(e, ast.IfExp):
            # decide `x % k` tests when x is given
            t = e.test
            if given and isinstance(t, ast.BinOp) and isinstance(t.op, ast.Mod) and isinstance(t.left, ast.Name) and t.left.id in given and isinstance(t.right, ast.Constant) and t.right.value == k:
                return self.ev(e.body if given[t.left.id] % k else e.orelse, given)
            a, b = self.ev(e.body, given), self.ev(e.orelse, given)
            return (a | b) if a is not TOP and b is not TOP else TOP
        if isinstance(e, ast.Call) and isinstance(e.func, ast.Name) and e.func.id == "len" and len(e.args) == 1:
            if isinstance(e.args[0], ast.Attribute) and e.args[0].attr == self.field:
                return frozenset({0})  # invariant of the flat record array: len ≡ 0 (mod stride)
            return TOP
        if isinstance(e, ast.Call) and isinstance(e.func, ast.Name) and e.func.id in ("int", "cast") and e.args:
            return self.ev(e.args[-1], given)
        return TOP


def _field_subscripts(fn: ast.AST, field: str) -> list[ast.Subscript]:
    out = []
    for n in walk_own(fn):
        if isinstance(n, ast.Subscript) and isinstance(n.value, ast.Attribute) and n.value.attr == field:
            out.append(n)
    return out


def rule_rs_readers(prog: Program, report: Report, fields: tuple[str, ...] = ("ranges", "mirror", "path")) -> None:
    report.rules.append("RS-readers")
    for field in fields:
        k, rel, cls = FIELDS[field]
        total = 0
        for fn in prog.all_funcs():
            if fn.module.rel != rel:
                continue
            subs = _field_subscripts(fn.node, field)
            if not subs:
                continue
            cg = Cong(fn.node, k, field)
            for s in subs:
                total += 1
                idx = s.slice
                text = " ".join(src(s).split())
                if isinstance(idx, ast.Slice):
                    full = idx.lower is None and idx.upper is None and idx.step is None
                    if full:
                        report.ob("RS-readers", fn.key, f"{text}: whole-array copy keeps the record layout")
                    else:
                        report.violate("RS-readers", fn, s, f"partial slice of flat record array `{field}`", f"`{text}` cuts the stride-{k} record array at an unchecked offset", what=f"{field} is only copied whole")
                    continue
                if isinstance(idx, ast.UnaryOp) and isinstance(idx.op, ast.USub) and isinstance(idx.operand, ast.Constant):
                    res = frozenset({(-idx.operand.value) % k})
                else:
                    res = cg.ev(idx)
                if field == "mirror":
                    _check_mirror(report, fn, s, cg, k)
                    continue
                if res is TOP:
                    # the index is built in a way the residue evaluator does not model: unknown, not wrong
                    report.errors.append(f"RS-readers: {fn.key}: the residue of `{src(idx)}` in `{text}` modulo {k} cannot be determined (unrecognised index form; found 0 time(s) among the modelled ones)")
                    continue
                if len(res) == 0 or len(res) == k:
                    report.violate(
                        "RS-readers", fn, s, f"`{field}` read at an offset of unknown residue",
                        f"`{text}`: the index `{src(idx)}` has no determinable residue modulo the record stride {k}, so the read does not address a fixed field of a record (loop variables get their residue from range(start, stop, {k}) / `i = 0 ... i += {k}`)",
                        what=f"every subscript of {field} has a known residue mod {k}",
                    )
                    continue
                if field == "path":
                    want = _cast_kind(s)
                    kinds = {"Node" if r == 0 else "int" for r in res}
                    if want is not None and kinds != {want}:
                        report.violate("RS-readers", fn, s, "path triple field read with the wrong cast", f"`{text}` has residue {sorted(res)} (0=node, 1=child index, 2=offset) but is cast to {want}", what="path residue agrees with cast")
                        continue
                report.ob("RS-readers", fn.key, f"{text}: residue {sorted(res)} mod {k}")
        report.count(f"RS subscripts of {field}", total)
        report.expect_at_least("RS-readers", f"subscripts of {field}", total, {"ranges": 10, "mirror": 2, "path": 9}[field])


def _cast_kind(s: ast.Subscript) -> str | None:
    p = parent_of(s)
    if isinstance(p, ast.Call) and isinstance(p.func, ast.Name) and p.func.id == "cast" and len(p.args) == 2 and p.args[1] is s:
        t = p.args[0]
        if isinstance(t, ast.Constant) and isinstance(t.value, str):
            return t.value.split(".")[-1]
        if isinstance(t, ast.Name):
            return t.id
    return None


def _check_mirror(report: Report, fn: Func, s: ast.Subscript, cg: Cong, k: int) -> None:
    idx = s.slice
    text = " ".join(src(s).split())
    names = sorted({x.id for x in ast.walk(idx) if isinstance(x, ast.Name)})
    if isinstance(idx, ast.Name):
        report.ob("RS-readers", fn.key, f"{text}: sequential scan of the pair array")
        return
    if len(names) == 1:
        ok = True
        for r in range(k):
            res = cg.ev(idx, {names[0]: r})
            if res != frozenset({(r + 1) % 2}):
                ok = False
        if ok:
            report.ob("RS-readers", fn.key, f"{text}: partner formula maps each parity to the other")
            return
    report.violate("RS-readers", fn, s, "mirror partner index does not flip parity", f"`{text}`: the partner of entry i of the (i, j) pair array must be i+1 for even i and i-1 for odd i", what="mirror partner formula flips parity")


def rule_rs_writers(prog: Program, report: Report) -> None:
    """Every list display flowing into StepMap(...) / mirror.extend / path.extend
    has length ≡ 0 (mod stride) (and for path the order node,int,int)."""
    report.rules.append("RS-writers")
    n_sites = 0
    for fn in prog.all_funcs():
        for c in (n for n in walk_own(fn.node) if isinstance(n, ast.Call)):
            f = c.func
            disp, k, what = None, 0, ""
            if isinstance(f, ast.Name) and f.id == "StepMap" and c.args:
                disp, k, what = c.args[0], 3, "StepMap ranges"
            elif isinstance(f, ast.Attribute) and f.attr in ("extend", "append") and isinstance(f.value, ast.Attribute) and f.value.attr == "mirror" and c.args:
                disp, k, what = c.args[0], 2, "Mapping.mirror"
                if f.attr == "append":
                    report.violate("RS-writers", fn, c, "single element appended to the pair array", f"`{src(c)}` breaks the (i, j) pairing of Mapping.mirror", what="mirror grows by pairs")
                    continue
            elif isinstance(f, ast.Attribute) and f.attr in ("extend", "append") and isinstance(f.value, ast.Name) and f.value.id == "path" and fn.module.rel == FIELDS["path"][1] and c.args:
                disp, k, what = c.args[0], 3, "ResolvedPos.path"
            if disp is None:
                continue
            n_sites += 1
            text = " ".join(src(c).split())[:100]
            if isinstance(disp, (ast.List, ast.Tuple)):
                if any(isinstance(e, ast.Starred) for e in disp.elts) or len(disp.elts) % k:
                    report.violate("RS-writers", fn, c, f"{what}: display of {len(disp.elts)} elements", f"`{text}`: a flat record array of stride {k} receives {len(disp.elts)} elements", what=f"{what} display length ≡ 0 mod {k}")
                else:
                    report.ob("RS-writers", fn.key, f"{text}: {len(disp.elts)} elements ≡ 0 (mod {k})")
            elif isinstance(disp, ast.Attribute) and disp.attr == "ranges":
                report.ob("RS-writers", fn.key, f"{text}: passes an existing ranges array through")
            else:
                report.ob("RS-writers", fn.key, f"{text}: non-display argument (caller's array)", nontrivial=False)
    report.count("RS writer sites", n_sites)
    report.expect_at_least("RS-writers", "writer sites", n_sites, 5)


def rule_rs_selectors(prog: Program, report: Report) -> None:
    """old_index / new_index are complementary: (2,1) if inverted else (1,2)."""
    report.rules.append("RS-selectors")
    n = 0
    for fn in prog.all_funcs():
        if fn.module.rel != FIELDS["ranges"][1]:
            continue
        sel: dict[str, ast.expr] = {}
        for a in walk_own(fn.node):
            if isinstance(a, ast.Assign) and len(a.targets) == 1 and isinstance(a.targets[0], ast.Name) and a.targets[0].id in ("old_index", "new_index"):
                sel[a.targets[0].id] = a.value
        if not sel:
            continue
        n += 1

        def val(e: ast.expr) -> tuple[int, int] | None:
            if isinstance(e, ast.IfExp) and src(e.test) == "self.inverted" and isinstance(e.body, ast.Constant) and isinstance(e.orelse, ast.Constant):
                return (e.body.value, e.orelse.value)
            if isinstance(e, ast.IfExp) and src(e.test) == "not self.inverted" and isinstance(e.body, ast.Constant) and isinstance(e.orelse, ast.Constant):
                return (e.orelse.value, e.body.value)
            return None

        o, nw = val(sel.get("old_index")) if "old_index" in sel else None, val(sel.get("new_index")) if "new_index" in sel else None  # type: ignore[arg-type]
        if "old_index" in sel and o != (2, 1) or "new_index" in sel and nw != (1, 2):
            report.violate("RS-selectors", fn, fn.node, "old_index/new_index selectors", f"old_index must be `2 if inverted else 1` and new_index `1 if inverted else 2` (found old={src(sel['old_index']) if 'old_index' in sel else '-'}, new={src(sel['new_index']) if 'new_index' in sel else '-'})", what="record-field selectors are complementary")
        else:
            report.ob("RS-selectors", fn.key, "old_index = 2 if inverted else 1; new_index = 1 if inverted else 2")
    report.expect_at_least("RS-selectors", "selector definitions", n, 3)


def rule_rs_accumulator(prog: Program, report: Report) -> None:
    """In a record-walking loop of StepMap, a variable initialised to a numeric
    literal before the loop and read inside it must be updated inside it; for
    `diff` the update is += new size - old size."""
    report.rules.append("RS-accumulator")
    rel = FIELDS["ranges"][1]
    n = 0
    for fn in prog.all_funcs():
        if fn.module.rel != rel or fn.cls is None or fn.cls.name != "StepMap":
            continue
        loops = [l for l in walk_own(fn.node) if isinstance(l, (ast.For, ast.While)) and any(isinstance(s, ast.Subscript) and isinstance(s.value, ast.Attribute) and s.value.attr == "ranges" for s in ast.walk(l))]
        if not loops:
            continue
        res = Resolver(fn.node, keep=("diff", "old_index", "new_index"))
        inits = {a.targets[0].id: a for a in fn.node.body if isinstance(a, ast.Assign) and len(a.targets) == 1 and isinstance(a.targets[0], ast.Name) and isinstance(a.value, ast.Constant) and isinstance(a.value.value, (int, float)) and not isinstance(a.value.value, bool)}
        for loop in loops:
            for name in sorted(inits):
                reads = [x for x in ast.walk(loop) if isinstance(x, ast.Name) and x.id == name and isinstance(x.ctx, ast.Load)]
                if not reads:
                    continue
                n += 1
                updates = [a for a in ast.walk(loop) if (isinstance(a, ast.AugAssign) and isinstance(a.target, ast.Name) and a.target.id == name) or (isinstance(a, ast.Assign) and any(isinstance(t, ast.Name) and t.id == name for t in a.targets))]
                if not updates:
                    report.violate("RS-accumulator", fn, loop, f"accumulator `{name}` never updated in the record loop", f"`{name}` is initialised to a literal before the loop over `ranges`, read inside it, and never updated: every record after the first is computed with a stale offset", what=f"accumulator {name} is updated in the loop")
                    continue
                if name == "diff":
                    good = False
                    for u in updates:
                        if isinstance(u, ast.AugAssign) and isinstance(u.op, ast.Add):
                            lin = linear(res.expr(u.value))
                            # expected: ranges[i+new_index] - ranges[i+old_index]
                            pos = [k for k, v in lin.items() if v == 1]
                            neg = [k for k, v in lin.items() if v == -1]
                            if len(lin) == 2 and len(pos) == 1 and len(neg) == 1 and _is_size(pos[0], ("new_index", "2")) and _is_size(neg[0], ("old_index", "1")):
                                good = True
                    if good:
                        report.ob("RS-accumulator", fn.key, "diff += <new size> - <old size> inside the record loop")
                    else:
                        report.violate("RS-accumulator", fn, updates[0], "diff update is not `+= new size - old size`", f"`{src(updates[0])}` (resolved: {lin_str(linear(res.expr(updates[0].value))) if hasattr(updates[0], 'value') else '?'}) - the running offset between old and new coordinates must grow by (new size - old size) of each record passed", what="diff += new - old")
                else:
                    report.ob("RS-accumulator", fn.key, f"accumulator `{name}` is updated in the record loop")
    report.expect_at_least("RS-accumulator", "accumulators in record loops", n, 4)


def _is_size(atom: str, sel: tuple[str, str]) -> bool:
    a = atom.replace(" ", "")
    return a.startswith("self.ranges[") and (a.endswith("+" + sel[0] + "]") or a.endswith("+" + sel[1] + "]"))


# ------------------------------------------------------------------------ RI
def rule_ri(prog: Program, report: Report) -> None:
    """In a loop guarded by `i < len(S)` (or `i < S.child_count`), a path that
    advances i and then reads S[i] / S.child(i) without re-testing the guard
    reads out of bounds on the last iteration."""
    report.rules.append("RI")
    n_loops = 0
    for fn in prog.all_funcs():
        for loop in [n for n in walk_own(fn.node) if isinstance(n, ast.While)]:
            guards = []
            for a in ast.walk(loop.test):
                if isinstance(a, ast.Compare) and len(a.ops) == 1 and isinstance(a.left, ast.Name) and isinstance(a.ops[0], ast.Lt):
                    b = a.comparators[0]
                    if isinstance(b, ast.Call) and isinstance(b.func, ast.Name) and b.func.id == "len" and b.args:
                        guards.append((a.left.id, src(b.args[0]), "sub"))
                    elif isinstance(b, ast.Attribute) and b.attr == "child_count":
                        guards.append((a.left.id, src(b.value), "child"))
            if not guards:
                continue
            n_loops += 1
            try:
                paths = enum_paths(loop.body)
            except TooManyPaths:
                report.note(f"RI: {fn.key}: loop not enumerated")
                continue
            bad = None
            for var, seq, kind in guards:
                for p in paths:
                    advanced = False
                    for ev in p.events:
                        nd = ev.node
                        if ev.kind == "aug" and isinstance(nd.target, ast.Name) and nd.target.id == var and isinstance(nd.op, ast.Add):
                            advanced = True
                            continue
                        if ev.kind == "assign" and any(isinstance(t, ast.Name) and t.id == var for t in ast.walk(nd) if isinstance(t, ast.Name) and isinstance(t.ctx, ast.Store)):
                            advanced = False  # re-bound: a different discipline (checked by its own guard)
                            continue
                        if ev.kind == "cond" and f"{var} <" in src(nd):
                            advanced = False
                        if advanced and nd is not None:
                            for x in ast.walk(nd):
                                if kind == "sub" and isinstance(x, ast.Subscript) and src(x.value) == seq and isinstance(x.slice, ast.Name) and x.slice.id == var:
                                    bad = (x, var, seq)
                                if kind == "child" and isinstance(x, ast.Call) and isinstance(x.func, ast.Attribute) and x.func.attr == "child" and src(x.func.value) == seq and x.args and isinstance(x.args[0], ast.Name) and x.args[0].id == var:
                                    bad = (x, var, seq)
            head = " ".join(src(loop.test).split())[:60]
            if bad:
                x, var, seq = bad
                report.violate("RI", fn, x, f"`{src(x)}` read after `{var}` was advanced", f"inside `while {head}` the index `{var}` is incremented before `{src(x)}` is read, with no re-test of the bound: the last iteration reads one past the end and the first element is skipped", what=f"while {head}: guarded index is not advanced before its use")
            else:
                report.ob("RI", fn.key, f"while {head}: index is used before it is advanced on every path")
    report.count("RI index-guarded while loops", n_loops)
    report.expect_at_least("RI", "index-guarded loops", n_loops, 3)
