"""RN - normal-form algebra of the position-bearing steps (get_map / invert /
map association sides) and RSIB - sibling agreement of implementations of one
skeleton.  Term rewriting on the constructor-argument expressions of
straight-line `return` statements; nothing is executed."""

from __future__ import annotations

import ast
import re
from fractions import Fraction

from ..core import AnalysisError, Func, Program, Report, src, walk_own
from ..norm import Lin, Resolver, clone, lin_str, linear

RSTEP = "prosemirror/transform/replace_step.py"
MSTEP = "prosemirror/transform/mark_step.py"
ASTEP = "prosemirror/transform/attr_step.py"


def _size_rewrite(e: ast.expr) -> Lin | None:
    """|doc.slice(a, b)| = b - a ;  |X.remove_between(a, b)| = |X| - (b - a)"""
    if isinstance(e, ast.Attribute) and e.attr == "size":
        return _size_of(e.value)
    return None


def _size_of(x: ast.expr) -> Lin | None:
    if isinstance(x, ast.Call) and isinstance(x.func, ast.Attribute):
        if x.func.attr == "slice" and len(x.args) == 2:
            a, b = (linear(t, _atom, _size_rewrite) for t in x.args)
            return _sub(b, a)
        if x.func.attr == "remove_between" and len(x.args) == 2:
            inner = _size_of(x.func.value)
            if inner is None:
                return None
            a, b = (linear(t, _atom, _size_rewrite) for t in x.args)
            return _sub(inner, _sub(b, a))
    return None


def _sub(a: Lin, b: Lin) -> Lin:
    out = dict(a)
    for k, v in b.items():
        out[k] = out.get(k, Fraction(0)) - v
    return {k: v for k, v in out.items() if v != 0}


_OPS = {ast.Div: "/", ast.FloorDiv: "//", ast.Mod: "%", ast.Mult: "*", ast.Pow: "**", ast.BitAnd: "&", ast.BitOr: "|", ast.BitXor: "^", ast.LShift: "<<", ast.RShift: ">>", ast.Add: "+", ast.Sub: "-"}


def _atom(e: ast.expr) -> str:
    """Canonical text of a sub-term that the linear normaliser treats as opaque."""
    if isinstance(e, ast.BinOp) and isinstance(e.op, (ast.BitOr, ast.BitAnd, ast.BitXor)):
        # commutative and associative on ints / flags: operands flattened and sorted
        parts: list[str] = []

        def flat(x: ast.expr) -> None:
            if isinstance(x, ast.BinOp) and type(x.op) is type(e.op):
                flat(x.left)
                flat(x.right)
            else:
                parts.append(canon(x))

        flat(e)
        return "(" + f" {_OPS.get(type(e.op), '?')} ".join(sorted(parts)) + ")"
    if isinstance(e, ast.BinOp):
        return f"({canon(e.left)} {_OPS.get(type(e.op), '?')} {canon(e.right)})"
    if isinstance(e, ast.UnaryOp):
        return f"({type(e.op).__name__} {canon(e.operand)})"
    return canon(e)


_NEG_OP = {ast.Eq: ast.NotEq, ast.NotEq: ast.Eq, ast.Lt: ast.GtE, ast.GtE: ast.Lt, ast.Gt: ast.LtE, ast.LtE: ast.Gt, ast.Is: ast.IsNot, ast.IsNot: ast.Is, ast.In: ast.NotIn, ast.NotIn: ast.In}


def _negated(x: ast.expr) -> ast.expr:
    if isinstance(x, ast.UnaryOp) and isinstance(x.op, ast.Not):
        return x.operand
    if isinstance(x, ast.Compare) and len(x.ops) == 1 and type(x.ops[0]) in _NEG_OP:
        return ast.Compare(left=x.left, ops=[_NEG_OP[type(x.ops[0])]()], comparators=x.comparators)
    if isinstance(x, ast.BoolOp):
        return ast.BoolOp(op=ast.Or() if isinstance(x.op, ast.And) else ast.And(), values=[_negated(v) for v in x.values])
    return ast.UnaryOp(op=ast.Not(), operand=x)


def _hoist_ifexp(e: ast.expr) -> ast.expr | None:
    """`a - (d if c else 0)` == `(a - d) if c else a`: a conditional term of a sum is hoisted to the
    top so that both spellings have one normal form."""
    found: list[ast.IfExp] = []

    def spine(x: ast.expr) -> None:
        if isinstance(x, ast.BinOp) and isinstance(x.op, (ast.Add, ast.Sub)):
            spine(x.left)
            spine(x.right)
        elif isinstance(x, ast.UnaryOp) and isinstance(x.op, (ast.USub, ast.UAdd)):
            spine(x.operand)
        elif isinstance(x, ast.IfExp):
            found.append(x)

    spine(e)
    if not found:
        return None
    target = found[0]

    def subst(x: ast.expr, arm: ast.expr) -> ast.expr:
        if x is target:
            return clone(arm)
        if isinstance(x, ast.BinOp) and isinstance(x.op, (ast.Add, ast.Sub)):
            return ast.BinOp(left=subst(x.left, arm), op=x.op, right=subst(x.right, arm))
        if isinstance(x, ast.UnaryOp) and isinstance(x.op, (ast.USub, ast.UAdd)):
            return ast.UnaryOp(op=x.op, operand=subst(x.operand, arm))
        return x

    return ast.fix_missing_locations(ast.IfExp(test=target.test, body=subst(e, target.body), orelse=subst(e, target.orelse)))


def canon(e: ast.expr) -> str:
    if isinstance(e, ast.Call):
        al = [canon(a) for a in e.args]
        if isinstance(e.func, ast.Name) and e.func.id in ("min", "max") and not e.keywords:
            al = sorted(al)  # symmetric in their arguments
        args = ", ".join(al + [f"{k.arg}={canon(k.value)}" for k in e.keywords])
        return f"{canon(e.func)}({args})"
    if (isinstance(e, ast.BinOp) and isinstance(e.op, (ast.Add, ast.Sub))) or (isinstance(e, ast.UnaryOp) and isinstance(e.op, ast.USub)):
        h = _hoist_ifexp(e)
        if h is not None:
            return canon(h)
    if isinstance(e, ast.BinOp) and isinstance(e.op, (ast.Add, ast.Sub, ast.Mult)) or (isinstance(e, ast.UnaryOp) and isinstance(e.op, (ast.USub, ast.UAdd))) or (isinstance(e, ast.Constant) and isinstance(e.value, (int, float)) and not isinstance(e.value, bool)):
        return lin_str(linear(e, _atom, _size_rewrite))
    if isinstance(e, (ast.BinOp, ast.UnaryOp)):
        return _atom(e)
    if isinstance(e, ast.Attribute):
        r = _size_rewrite(e)
        if r is not None:
            return lin_str(r)
        return f"{canon(e.value)}.{e.attr}"
    if isinstance(e, ast.Subscript):
        return f"{canon(e.value)}[{canon(e.slice)}]" if not isinstance(e.slice, ast.Slice) else src(e)
    if isinstance(e, ast.IfExp):
        # one spelling per condition: `A if not c else B` == `B if c else A`; `x != y` and a
        # remainder compared with 0 are turned to their positive form the same way
        test, body, orelse = e.test, e.body, e.orelse
        flipped = True
        while flipped:
            flipped = False
            if isinstance(test, ast.UnaryOp) and isinstance(test.op, ast.Not):
                test, body, orelse, flipped = test.operand, orelse, body, True
            elif isinstance(test, ast.Compare) and len(test.ops) == 1 and isinstance(test.ops[0], (ast.NotEq, ast.IsNot, ast.NotIn)):
                pos = {ast.NotEq: ast.Eq, ast.IsNot: ast.Is, ast.NotIn: ast.In}[type(test.ops[0])]()
                test, body, orelse, flipped = ast.Compare(left=test.left, ops=[pos], comparators=test.comparators), orelse, body, True
            elif isinstance(test, ast.Compare) and len(test.ops) == 1 and isinstance(test.ops[0], ast.Eq) and isinstance(test.comparators[0], ast.Constant) and test.comparators[0].value == 0 and isinstance(test.left, ast.BinOp) and isinstance(test.left.op, ast.Mod):
                test, body, orelse, flipped = test.left, orelse, body, True  # `i % 2 == 0` is `not i % 2`
            elif isinstance(test, ast.Compare) and len(test.ops) == 1 and isinstance(test.ops[0], (ast.Lt, ast.LtE, ast.Gt, ast.GtE)):
                # one polarity per ordering test: the spelling whose canonical fact sorts first
                from ..norm import facts as _nf3

                ft, ff = _nf3(test, True), _nf3(test, False)
                if len(ft) == 1 and len(ff) == 1 and ff[0] < ft[0]:
                    test, body, orelse = _negated(test), orelse, body
                break
            elif isinstance(test, ast.BoolOp) and isinstance(test.op, ast.Or):
                # De Morgan: a disjunctive test is stated as the conjunction of the negations
                test, body, orelse, flipped = ast.BoolOp(op=ast.And(), values=[_negated(x) for x in test.values]), orelse, body, True
        if canon(test) == canon(body):
            return canon(ast.BoolOp(op=ast.Or(), values=[body, orelse]))  # `p if p else d` is `p or d`
        return f"({canon(body)} if {canon(test)} else {canon(orelse)})"
    if isinstance(e, ast.Compare) and len(e.ops) == 1:
        from ..norm import facts

        return facts(e, True, canon)[0]
    if isinstance(e, ast.BoolOp):
        parts = [canon(v) for v in e.values]
        if not any(isinstance(x, (ast.Call, ast.NamedExpr, ast.Subscript)) for v in e.values for x in ast.walk(v)):
            parts = sorted(parts)  # operands without calls/subscripts commute
        return "(" + (" and " if isinstance(e.op, ast.And) else " or ").join(parts) + ")"
    if isinstance(e, (ast.List, ast.Tuple)):
        return "[" + ", ".join(canon(x) for x in e.elts) + "]"
    if isinstance(e, ast.Dict) and all(k is not None for k in e.keys):
        return "{" + ", ".join(f"{canon(k)}: {canon(v)}" for k, v in zip(e.keys, e.values)) + "}"  # type: ignore[arg-type]
    return src(e)


def kind_of(e: ast.expr) -> str:
    """Coarse construct kind: a Val mismatch is a violation only between
    expressions of the same kind (a changed term); a different construct is an
    unrecognised idiom."""
    if isinstance(e, ast.Call):
        f = e.func
        return "call:" + (f.attr if isinstance(f, ast.Attribute) else src(f))
    if isinstance(e, (ast.BinOp, ast.UnaryOp, ast.Constant, ast.Name, ast.Attribute, ast.Subscript)):
        if isinstance(e, ast.UnaryOp) and isinstance(e.op, ast.Not):
            return "bool"
        return "term"
    if isinstance(e, (ast.BoolOp, ast.Compare)):
        return "bool"
    return type(e).__name__


def _ret_call(fn: Func, ctor: str) -> ast.Call:
    res = Resolver(fn.node)
    rets = [r for r in walk_own(fn.node) if isinstance(r, ast.Return) and r.value is not None]
    if len(rets) != 1:
        raise AnalysisError(f"RN: {fn.key} is no longer a single straight-line return (unrecognised idiom)")
    v = res.expr(rets[0].value)
    if not (isinstance(v, ast.Call) and src(v.func) == ctor):
        raise AnalysisError(f"RN: {fn.key} does not return {ctor}(...) directly (unrecognised idiom: the documented formula cannot be compared)")
    return v


def _expect(report: Report, fn: Func, what: str, got: list[ast.expr], want: list[str]) -> bool:
    ok = True
    if len(got) != len(want):
        report.violate("RN", fn, fn.node, f"{what}: {len(got)} terms, documented formula has {len(want)}", f"{what} must be {want}", what=f"{what} = documented formula")
        return False
    for i, (g, w) in enumerate(zip(got, want)):
        cg, cw = canon(g), canon(ast.parse(w, mode="eval").body)
        if cg == cw:
            report.ob("RN", fn.key, f"{what}[{i}] = {cw}")
        else:
            ok = False
            report.violate("RN", fn, g if hasattr(g, "lineno") else fn.node, f"{what}[{i}] = {cg}", f"term {i} of {what} normalises to `{cg}` but the documented formula is `{cw}` (source: `{src(g)}`)", what=f"{what}[{i}] = {cw}")
    return ok


def rule_rn_formulas(prog: Program, report: Report) -> None:
    report.rules.append("RN")
    # ---- get_map
    f1 = prog.func(f"{RSTEP}::ReplaceStep.get_map")
    c1 = _ret_call(f1, "StepMap")
    m1 = _display(c1, f1)
    _expect(report, f1, "ReplaceStep.get_map", m1, ["self.from_", "self.to - self.from_", "self.slice.size"])
    f2 = prog.func(f"{RSTEP}::ReplaceAroundStep.get_map")
    c2 = _ret_call(f2, "StepMap")
    m2 = _display(c2, f2)
    _expect(report, f2, "ReplaceAroundStep.get_map", m2, ["self.from_", "self.gap_from - self.from_", "self.insert", "self.gap_to", "self.to - self.gap_to", "self.slice.size - self.insert"])
    # ---- invert
    f3 = prog.func(f"{RSTEP}::ReplaceStep.invert")
    i1 = _ret_call(f3, "ReplaceStep")
    _expect(report, f3, "ReplaceStep.invert", i1.args, ["self.from_", "self.from_ + self.slice.size", "doc.slice(self.from_, self.to)"])
    f4 = prog.func(f"{RSTEP}::ReplaceAroundStep.invert")
    i2 = _ret_call(f4, "ReplaceAroundStep")
    _expect(
        report, f4, "ReplaceAroundStep.invert", i2.args,
        [
            "self.from_",
            "self.from_ + self.slice.size + (self.gap_to - self.gap_from)",
            "self.from_ + self.insert",
            "self.from_ + self.insert + (self.gap_to - self.gap_from)",
            "doc.slice(self.from_, self.to).remove_between(self.gap_from - self.from_, self.gap_to - self.from_)",
            "self.gap_from - self.from_",
            "self.structure",
        ],
    )
    # ---- derived identity: get_map(invert(step)) == invert(get_map(step))
    _identity(report, f3, m1, {"self.from_": i1.args[0], "self.to": i1.args[1], "self.slice": i1.args[2]} if len(i1.args) >= 3 else None, "ReplaceStep")
    names = ["self.from_", "self.to", "self.gap_from", "self.gap_to", "self.slice", "self.insert"]
    _identity(report, f4, m2, dict(zip(names, i2.args[:6])) if len(i2.args) >= 6 else None, "ReplaceAroundStep")
    # ---- steps without a position effect report the empty map
    for key in (f"{MSTEP}::AddMarkStep", f"{MSTEP}::RemoveMarkStep", f"{MSTEP}::AddNodeMarkStep", f"{MSTEP}::RemoveNodeMarkStep", f"{ASTEP}::AttrStep", "prosemirror/transform/doc_attr_step.py::DocAttrStep"):
        k = key + ".get_map"
        if prog.has_func(k):
            fn = prog.func(k)
            rets = [src(r.value) for r in walk_own(fn.node) if isinstance(r, ast.Return) and r.value is not None]
            if rets == ["StepMap.empty"]:
                report.ob("RN", k, "returns StepMap.empty")
            else:
                report.violate("RN", fn, fn.node, f"{key.split('::')[1]}.get_map returns {rets}", "mark, node-mark and attribute steps replace a range by content of equal size and must report the empty map", what="size-preserving steps report the empty map")
        else:
            report.ob("RN", key, "get_map not overridden: inherits Step.get_map")
    base = prog.func("prosemirror/transform/step.py::Step.get_map")
    if [src(r.value) for r in walk_own(base.node) if isinstance(r, ast.Return)] != ["StepMap.empty"]:
        report.violate("RN", base, base.node, "Step.get_map default is not StepMap.empty", "the default position map of a step is the empty map", what="Step.get_map default")


def _display(c: ast.Call, fn: Func) -> list[ast.expr]:
    if len(c.args) < 1 or not isinstance(c.args[0], (ast.List, ast.Tuple)):
        raise AnalysisError(f"RN: {fn.key}: StepMap is not built from a list display (unrecognised idiom: the documented formula cannot be compared)")
    return list(c.args[0].elts)


def _identity(report: Report, fn: Func, m: list[ast.expr], subst: dict[str, ast.expr] | None, what: str) -> None:
    if subst is None:
        return

    class Sub(ast.NodeTransformer):
        def visit_Attribute(self, node: ast.Attribute) -> ast.AST:
            s = src(node)
            if s in subst:
                return clone(subst[s])
            return self.generic_visit(node)

    inv_map = [Sub().visit(clone(t)) for t in m]  # get_map formula evaluated on the inverted step's fields
    lin = lambda e: linear(e, _atom, _size_rewrite)  # noqa: E731
    k = len(m) // 3
    ok = True
    shift: Lin = {}
    for r in range(k):
        s0, o0, n0 = (lin(m[3 * r + j]) for j in range(3))
        s1, o1, n1 = (lin(inv_map[3 * r + j]) for j in range(3))
        want_start = dict(s0)
        for kk, vv in shift.items():
            want_start[kk] = want_start.get(kk, Fraction(0)) + vv
        want_start = {a: b for a, b in want_start.items() if b != 0}
        checks = [("start", s1, want_start), ("old size", o1, n0), ("new size", n1, o0)]
        for label, got, want in checks:
            if got != want:
                ok = False
                report.violate("RN", fn, fn.node, f"{what}: inverse map range {r} {label} = {lin_str(got)}", f"substituting {what}.invert's arguments into {what}.get_map gives {label} `{lin_str(got)}` for range {r}, but the inverse of the original map has `{lin_str(want)}` (using |doc.slice(a,b)| = b-a): the inverted step's map is not the inverse of the step's map", what=f"get_map(invert({what})) = invert(get_map({what}))")
        for kk, vv in _sub(n0, o0).items():
            shift[kk] = shift.get(kk, Fraction(0)) + vv
    if ok:
        report.ob("RN", fn.key, f"derived: get_map(invert({what})) is the inverse of get_map({what}) for all {k} range(s)")


ASSOC = {"from_": 1, "to": -1, "gap_from": -1, "gap_to": 1, "pos": 1}


def rule_rn_assoc(prog: Program, report: Report) -> None:
    """Association sides in Step.map: lower ends map with +1, upper ends with
    -1 (ranges never grow), gap ends with the opposite signs, node positions +1."""
    report.rules.append("RN-assoc")
    n = 0
    for key in [k for k in prog.funcs if k.endswith(".map") and "/transform/" in k and "step" in k.split("::")[0]]:
        fn = prog.funcs[key]
        for c in walk_own(fn.node):
            if isinstance(c, ast.Call) and isinstance(c.func, ast.Attribute) and c.func.attr in ("map_result", "map") and src(c.func.value) == "mapping" and c.args:
                a0 = c.args[0]
                if isinstance(a0, ast.Attribute) and src(a0.value) == "self" and a0.attr in ASSOC:
                    n += 1
                    side = c.args[1] if len(c.args) > 1 else ast.Constant(value=1)
                    val = None
                    if isinstance(side, ast.Constant):
                        val = side.value
                    elif isinstance(side, ast.UnaryOp) and isinstance(side.op, ast.USub) and isinstance(side.operand, ast.Constant):
                        val = -side.operand.value
                    if val == ASSOC[a0.attr]:
                        report.ob("RN-assoc", key, f"{src(a0)} is mapped with assoc {val:+d}")
                    else:
                        report.violate("RN-assoc", fn, c, f"`{src(c)}` maps {a0.attr} with assoc {src(side)}", f"`{a0.attr}` must be mapped with association side {ASSOC[a0.attr]:+d} so that a rebased range does not grow over content inserted at its boundary (and a gap does not shrink)", what=f"{a0.attr} mapped with assoc {ASSOC[a0.attr]:+d}")
    report.count("RN association sides", n)
    report.expect_at_least("RN-assoc", "association sides", n, 11)


# ---------------------------------------------------------------------- RSIB
class _Renamer(ast.NodeTransformer):
    def __init__(self, mapping: dict[str, str]) -> None:
        self.m = mapping

    def visit_Name(self, node: ast.Name) -> ast.AST:
        node.id = self.m.get(node.id, node.id)
        return node

    def visit_Attribute(self, node: ast.Attribute) -> ast.AST:
        self.generic_visit(node)
        node.attr = self.m.get(node.attr, node.attr)
        return node

    def visit_Constant(self, node: ast.Constant) -> ast.AST:
        if isinstance(node.value, str):
            v = node.value
            for a, b in self.m.items():
                v = v.replace(a, b)
            node.value = v
        return node

    def visit_arg(self, node: ast.arg) -> ast.AST:
        node.arg = self.m.get(node.arg, node.arg)
        node.annotation = None
        return node


def _ret_normal(stmts: list[ast.stmt]) -> list[ast.stmt]:
    """`if C: return A` followed by `return B`  ==>  `return A if C else B`
    (also if/else both returning), applied recursively."""
    out: list[ast.stmt] = []
    i = 0
    stmts = [s for s in stmts if not (isinstance(s, ast.Expr) and isinstance(s.value, ast.Constant))]
    while i < len(stmts):
        s = stmts[i]
        if isinstance(s, ast.If):
            body = _ret_normal(s.body)
            orelse = _ret_normal(s.orelse)
            nxt = stmts[i + 1] if i + 1 < len(stmts) else None
            if len(body) == 1 and isinstance(body[0], ast.Return) and body[0].value is not None:
                other = None
                consumed = 0
                if len(orelse) == 1 and isinstance(orelse[0], ast.Return) and orelse[0].value is not None:
                    other = orelse[0].value
                elif not orelse and isinstance(nxt, ast.Return) and nxt.value is not None and i + 2 == len(stmts):
                    other = nxt.value
                    consumed = 1
                if other is not None:
                    r = ast.Return(value=ast.IfExp(test=s.test, body=body[0].value, orelse=other))
                    out.append(ast.fix_missing_locations(ast.copy_location(r, s)))
                    i += 1 + consumed
                    continue
            n = clone(s)
            n.body, n.orelse = body, orelse
            out.append(n)
        elif isinstance(s, (ast.For, ast.While)):
            n = clone(s)
            n.body, n.orelse = _ret_normal(s.body), _ret_normal(s.orelse)
            out.append(n)
        else:
            out.append(s)
        i += 1
    return out


def _inline_locals(fn_node: ast.AST, stmts: list[ast.stmt], only_within: ast.AST | None = None) -> list[ast.stmt]:
    """Drop the definitions of single-assignment locals and inline them
    (optionally only those defined inside `only_within`)."""
    res = Resolver(fn_node)
    if only_within is not None:
        inside = {t.id for n in ast.walk(only_within) if isinstance(n, ast.Assign) for t in n.targets if isinstance(t, ast.Name)}
        res.defs = {k: v for k, v in res.defs.items() if k in inside}
    out: list[ast.stmt] = []

    class T(ast.NodeTransformer):
        def visit_Name(self, node: ast.Name) -> ast.AST:
            if isinstance(node.ctx, ast.Load) and node.id in res.defs:
                return res.expr(ast.Name(id=node.id, ctx=ast.Load()))
            return node

    def walk(ss: list[ast.stmt]) -> list[ast.stmt]:
        r: list[ast.stmt] = []
        for s in ss:
            if isinstance(s, (ast.Assign, ast.AnnAssign)):
                tg = s.targets[0] if isinstance(s, ast.Assign) and len(s.targets) == 1 else getattr(s, "target", None)
                if isinstance(tg, ast.Name) and tg.id in res.defs:
                    continue
            n = clone(s)
            for fld in ("body", "orelse"):
                if hasattr(n, fld) and isinstance(getattr(n, fld), list) and getattr(n, fld) and isinstance(getattr(n, fld)[0], ast.stmt):
                    setattr(n, fld, walk(getattr(s, fld)))
            if not isinstance(n, (ast.If, ast.For, ast.While)):
                n = T().visit(n)
            else:
                for fld in ("test", "iter"):
                    if hasattr(n, fld):
                        setattr(n, fld, T().visit(getattr(n, fld)))
            r.append(n)
        return r

    return walk(stmts)


_PROG: list = []


def _inline_ctor_helpers(node: ast.AST) -> ast.AST:
    """`C.helper(a)` where C.helper is a classmethod of the package whose body is `return cls(..)`
    becomes the constructor call it abbreviates (`StepResult.fail(m)` is `StepResult(None, m)`)."""
    if not _PROG:
        return node
    prog = _PROG[0]

    class T(ast.NodeTransformer):
        def visit_Call(self, c: ast.Call) -> ast.AST:
            self.generic_visit(c)
            f = c.func
            if isinstance(f, ast.Attribute) and isinstance(f.value, ast.Name) and f.value.id[:1].isupper() and not c.keywords:
                cands = [fn for k, fn in prog.funcs.items() if k.endswith(f"::{f.value.id}.{f.attr}")]
                if len(cands) == 1:
                    fn = cands[0]
                    body = [x for x in fn.node.body if not (isinstance(x, ast.Expr) and isinstance(x.value, ast.Constant))]
                    decos = {src(d) for d in fn.node.decorator_list}
                    params = fn.params()
                    if "classmethod" in decos and len(body) == 1 and isinstance(body[0], ast.Return) and isinstance(body[0].value, ast.Call) and isinstance(body[0].value.func, ast.Name) and body[0].value.func.id == params[0] and len(params) - 1 == len(c.args):
                        m = dict(zip(params[1:], c.args))

                        class S(ast.NodeTransformer):
                            def visit_Name(self, n: ast.Name) -> ast.AST:
                                if n.id in m:
                                    return clone(m[n.id])
                                if n.id == params[0]:
                                    return ast.Name(id=f.value.id, ctx=ast.Load())
                                return n

                        return S().visit(clone(body[0].value))
            return c

    return ast.fix_missing_locations(T().visit(node))


def _stmt_canon(t: ast.stmt) -> str | None:
    """One spelling per simple statement (canonical value expressions): mirrored comparisons, De Morgan,
    inverted conditional expressions and reordered commutative terms print alike."""
    if isinstance(t, ast.Return):
        return "return " + (canon(t.value) if t.value is not None else "None")
    if isinstance(t, ast.Assign) and len(t.targets) == 1:
        return f"{' '.join(src(t.targets[0]).split())} = {canon(t.value)}"
    if isinstance(t, ast.Expr) and isinstance(t.value, ast.Call):
        return canon(t.value)
    return None


class _PushNot(ast.NodeTransformer):
    """`not (A and B)` -> `not A or not B`, `not (A or B)` -> `not A and not B`, `not not A` -> `A`
    (operand order kept): the two spellings of one condition print alike."""

    def visit_UnaryOp(self, node: ast.UnaryOp) -> ast.AST:
        if isinstance(node.op, ast.Not):
            o = node.operand
            if isinstance(o, ast.BoolOp):
                op = ast.Or() if isinstance(o.op, ast.And) else ast.And()
                return self.visit(ast.BoolOp(op=op, values=[ast.UnaryOp(op=ast.Not(), operand=x) for x in o.values]))
            if isinstance(o, ast.UnaryOp) and isinstance(o.op, ast.Not):
                return self.visit(o.operand)
        self.generic_visit(node)
        return node

    def visit_BoolOp(self, node: ast.BoolOp) -> ast.AST:
        self.generic_visit(node)
        vals: list[ast.expr] = []
        for x in node.values:  # flatten nested same-operator groups
            if isinstance(x, ast.BoolOp) and type(x.op) is type(node.op):
                vals.extend(x.values)
            else:
                vals.append(x)
        node.values = vals
        return node


def _norm_stmts(stmts: list[ast.stmt], mapping: dict[str, str], fn_node: ast.AST | None = None) -> list[str]:
    if fn_node is not None:
        stmts = _inline_locals(fn_node, stmts)
    stmts = _ret_normal(stmts)
    out = []
    for s in stmts:
        if isinstance(s, ast.Expr) and isinstance(s.value, ast.Constant):
            continue  # docstring
        t = ast.fix_missing_locations(_PushNot().visit(_Renamer(mapping).visit(_inline_ctor_helpers(clone(s)))))
        ctext = _stmt_canon(t)
        if ctext is not None:
            out.append(ctext)
            continue
        if isinstance(t, (ast.FunctionDef, ast.AsyncFunctionDef)):
            t.returns = None
        out.append(" ".join(src(t).split()))
    return out


def _kinds(stmts: list[str]) -> list[str]:
    return [x.split(" ", 1)[0].split("(")[0] if x.split(" ", 1)[0] in ("if", "for", "while", "return", "raise", "try:", "with") else "stmt" for x in stmts]


def _classify(sa: list[str], sb: list[str]) -> tuple[str, tuple[str, str]]:
    """'same' | 'differs' (same skeleton, a term changed, or one side lacks an
    effectful statement the other has) | 'unrecognised' (different skeleton)."""
    if sa == sb:
        return "same", ("", "")
    if len(sa) == len(sb) and _kinds(sa) == _kinds(sb):
        d = next((x, y) for x, y in zip(sa, sb) if x != y)
        # a compound statement whose inner skeleton differs is an unrecognised rewrite
        if d[0].startswith(("if ", "for ", "while ")) and _shape(d[0]) != _shape(d[1]):
            return "unrecognised", d
        return "differs", d
    short, long_ = (sa, sb) if len(sa) < len(sb) else (sb, sa)
    it = iter(long_)
    if all(any(x == y for y in it) for x in short):
        extra = [x for x in long_ if x not in short]
        return "differs", (f"{len(sa)} statements", f"{len(sb)} statements; only one side has: {extra[0][:80]}")
    return "unrecognised", (sa[0] if sa else "", sb[0] if sb else "")


def _shape(text: str) -> str:
    try:
        t = ast.parse(text)
    except SyntaxError:
        return text
    return " ".join(type(n).__name__ for n in ast.walk(t) if isinstance(n, (ast.stmt,)))


SIBLINGS: list[tuple[str, str, dict[str, str], str]] = [
    # (function A, function B, renaming applied to B, what the pair shares)
    (f"{MSTEP}::AddMarkStep.map", f"{MSTEP}::RemoveMarkStep.map", {"RemoveMarkStep": "AddMarkStep"}, "rebasing of a mark range"),
    (f"{MSTEP}::AddMarkStep.merge", f"{MSTEP}::RemoveMarkStep.merge", {"RemoveMarkStep": "AddMarkStep"}, "merging of overlapping mark ranges"),
    (f"{MSTEP}::AddMarkStep.to_json", f"{MSTEP}::RemoveMarkStep.to_json", {"removeMark": "addMark"}, "JSON form of a mark step"),
    (f"{MSTEP}::AddMarkStep.from_json", f"{MSTEP}::RemoveMarkStep.from_json", {"RemoveMarkStep": "AddMarkStep"}, "JSON decoding of a mark step"),
    (f"{MSTEP}::AddNodeMarkStep.map", f"{MSTEP}::RemoveNodeMarkStep.map", {"RemoveNodeMarkStep": "AddNodeMarkStep"}, "rebasing of a node position"),
    (f"{MSTEP}::AddNodeMarkStep.to_json", f"{MSTEP}::RemoveNodeMarkStep.to_json", {"removeNodeMark": "addNodeMark"}, "JSON form of a node-mark step"),
    (f"{MSTEP}::AddNodeMarkStep.from_json", f"{MSTEP}::RemoveNodeMarkStep.from_json", {"RemoveNodeMarkStep": "AddNodeMarkStep"}, "JSON decoding of a node-mark step"),
]


def rule_rsib(prog: Program, report: Report, only: tuple[str, ...] | None = None, parts: tuple[str, ...] = ()) -> None:
    report.rules.append("RSIB")
    _PROG[:] = [prog]
    for a, b, ren, what in SIBLINGS:
        if only is not None and not any(o in a for o in only):
            continue
        fa, fb = prog.func(a), prog.func(b)
        sa = _norm_stmts(fa.node.body, {}, fa.node)
        sb = _norm_stmts(fb.node.body, ren, fb.node)
        sa = [re.sub(r"Invalid input for \w+\.from_json", "Invalid input", x) for x in sa]
        sb = [re.sub(r"Invalid input for \w+\.from_json", "Invalid input", x) for x in sb]
        verdict, diff = _classify(sa, sb)
        if verdict == "same":
            report.ob("RSIB", a, f"agrees with {b.split('::')[1]} ({what})")
        elif verdict == "unrecognised":
            report.errors.append(f"RSIB: {a.split('::')[1]} and {b.split('::')[1]} no longer share a skeleton (one was restructured): the pair cannot be compared")
        else:
            report.violate("RSIB", fb, fb.node, f"{a.split('::')[1]} and {b.split('::')[1]} disagree", f"the two implement the same contract ({what}) and agree up to the class name except for: `{diff[0][:90]}` vs `{diff[1][:90]}` - one of them is wrong", witness=[a, b], what=f"{a.split('::')[1]} ~ {b.split('::')[1]}")
    if "loop" in parts:
        _loop_pair(prog, report)
    if "trio" in parts:
        _apply_trio(prog, report)
    if "maptouch" in parts:
        _map_touches(prog, report)


def _loop_of(fn: Func) -> ast.While:
    loops = [n for n in walk_own(fn.node) if isinstance(n, ast.While)]
    if len(loops) != 1:
        raise AnalysisError(f"RSIB: {fn.key}: expected exactly one while loop")
    return loops[0]


def _loop_pair(prog: Program, report: Report) -> None:
    """ResolvedPos.marks ~ marks_across: the non-inclusive filter loop."""
    a = prog.func("prosemirror/model/resolvedpos.py::ResolvedPos.marks")
    b = prog.func("prosemirror/model/resolvedpos.py::ResolvedPos.marks_across")
    # locals and parameters are numbered by first occurrence in the loop, so that the two functions'
    # different names for "the node on the other side" (`other` / `next`) - and any later renaming -
    # do not matter
    def alpha_lines(fn: Func, lines: list[str]) -> list[str]:
        from ..norm import assigned_names

        loc = (assigned_names([fn.node]) | set(fn.params())) - {"self"}
        order: dict[str, str] = {}

        def rep(m: re.Match) -> str:
            nm = m.group(0)
            if nm in loc:
                order.setdefault(nm, f"L{len(order) + 1}")
                return order[nm]
            return nm

        return [re.sub(r"(?<![\w.'\"])[A-Za-z_]\w*", rep, ln) for ln in lines]

    la = alpha_lines(a, _body_norm(a, _loop_of(a), {}))
    lb = alpha_lines(b, _body_norm(b, _loop_of(b), {}))
    verdict, diff = _classify(la, lb)
    if verdict == "same":
        report.ob("RSIB", a.key, "the non-inclusive-mark filter loop agrees with marks_across (index re-examined after a removal)")
    elif verdict == "unrecognised":
        report.errors.append("RSIB: ResolvedPos.marks and marks_across no longer share a loop skeleton: the pair cannot be compared")
    else:
        report.violate("RSIB", a, _loop_of(a), "marks and marks_across filter loops disagree", f"both drop the non-inclusive marks that do not continue on the other side with the same scan (`i -= 1` after a removal so the mark shifted into the slot is examined); they differ: `{diff[0][:160]}` vs `{diff[1][:160]}`", witness=[a.key, b.key], what="marks ~ marks_across loop")


def _body_norm(fn: Func, loop: ast.While, ren: dict[str, str]) -> list[str]:
    """header + flattened body statements of the loop (locals of the loop body inlined)."""
    stmts = _inline_locals(fn.node, [loop], only_within=loop)
    lp = stmts[0]
    out = ["while " + " ".join(src(_Renamer(ren).visit(clone(lp.test))).split())]  # type: ignore[attr-defined]

    def flat(ss: list[ast.stmt], depth: int) -> None:
        for s_ in ss:
            if isinstance(s_, ast.If):
                out.append("  " * depth + "if " + " ".join(src(ast.fix_missing_locations(_PushNot().visit(_Renamer(ren).visit(clone(s_.test))))).split()))
                flat(s_.body, depth + 1)
                if s_.orelse:
                    out.append("  " * depth + "else")
                    flat(s_.orelse, depth + 1)
            else:
                out.append("  " * depth + " ".join(src(_Renamer(ren).visit(clone(s_))).split()))

    flat(lp.body, 1)  # type: ignore[attr-defined]
    return out


def _apply_trio(prog: Program, report: Report) -> None:
    """AddNodeMarkStep.apply ~ RemoveNodeMarkStep.apply ~ AttrStep.apply."""
    keys = [f"{MSTEP}::AddNodeMarkStep.apply", f"{MSTEP}::RemoveNodeMarkStep.apply", f"{ASTEP}::AttrStep.apply"]
    shapes = []
    for k in keys:
        fn = prog.func(k)
        stmts = _norm_stmts(fn.node.body, {})
        first = stmts[0] if stmts else ""
        guard = next((s for s in stmts if s.startswith("if not node")), "")
        ret = next((s for s in reversed(stmts) if s.startswith("return StepResult.from_replace")), "")
        upd = next((s for s in stmts if s.startswith("updated = ")), "")
        ctor = upd.split("(")[0]
        shapes.append((first, re.sub(r"""('[^']*'|"[^"]*")""", "'...'", guard), ret, ctor))
    if all(s == shapes[0] for s in shapes):
        report.ob("RSIB", keys[0], "the three node-level apply methods share lookup, miss-handling, constructor and replaced range")
    else:
        idx = next(i for i, s in enumerate(shapes) if s != shapes[0])
        d = next((x, y) for x, y in zip(shapes[0], shapes[idx]) if x != y)
        fn = prog.func(keys[idx])
        from ..gates import new_names, view as _view

        fresh = sorted(set().union(*[new_names(_view(prog, k)) for k in keys]))
        if fresh:
            # a local the reviewed functions did not have (`replacement = Slice(..)`): the statements are
            # cut differently, the skeleton cannot be compared component by component
            report.errors.append(f"RSIB: the node-level apply methods introduce {fresh}, which the reviewed tree did not have: the trio cannot be compared (found 0 time(s) in the reviewed shape)")
            return
        report.violate("RSIB", fn, fn.node, f"{keys[idx].split('::')[1]} deviates from its siblings", f"the node-level steps share one skeleton (node_at miss => fail; rebuild with type.create; replace pos..pos+1 by Slice(.., 0, 0 if leaf else 1)); difference: `{d[0][:100]}` vs `{d[1][:100]}`", witness=keys, what="node-level apply skeleton")


def _map_touches(prog: Program, report: Report) -> None:
    a = prog.func("prosemirror/transform/map.py::StepMap._map")
    b = prog.func("prosemirror/transform/map.py::StepMap.touches")

    from ..norm import facts as _nfacts

    def facts(fn: Func) -> dict[str, str]:
        # every field in canonical form with the function's single-assignment locals resolved, so that a
        # renamed, inlined or hoisted local and a mirrored comparison do not matter
        res = Resolver(fn.node)
        out = {}
        for n in walk_own(fn.node):
            if isinstance(n, ast.For):
                out["loop"] = canon(res.expr(n.iter, 8))
            if isinstance(n, ast.Assign) and len(n.targets) == 1 and isinstance(n.targets[0], ast.Name) and n.targets[0].id in ("start", "end", "old_index", "new_index", "old_size"):
                out[n.targets[0].id] = canon(res.expr(n.value, 8))
            if isinstance(n, ast.If) and any(isinstance(x, ast.Break) for x in n.body):
                out["break"] = " and ".join(sorted(_nfacts(res.expr(n.test, 8), True)))
        return out

    fa, fb = facts(a), facts(b)
    keys = ("loop", "start", "end", "old_index", "new_index", "old_size", "break")
    missing = [k for k in keys if (k in fa) != (k in fb)]
    if missing:
        # a local of that name exists on one side only: renamed or inlined, not comparable by name
        report.errors.append(f"RSIB: StepMap._map and touches no longer share the locals {missing}: the pair cannot be compared (found 0 time(s) on one side)")
        return  # the other fields are defined through the missing ones: nothing is comparable
    bad = [k for k in keys if fa.get(k) != fb.get(k)]
    if bad:
        report.violate("RSIB", b, b.node, f"StepMap._map and touches disagree on {bad}", f"both scan the ranges with the same skeleton; they differ in {[(k, fa.get(k), fb.get(k)) for k in bad]}", witness=[a.key, b.key], what="_map ~ touches scan skeleton")
    elif not missing:
        report.ob("RSIB", a.key, "scan skeleton (loop header, start, end, selectors, break test) agrees with touches")
