"""RF - freshness / ownership (immutability of documents and their parts)."""

from __future__ import annotations

import ast

from ..core import AnalysisError, Func, Program, Report, enclosing, parent_of, src, walk_own
from .rl import MUTATORS, _is_fresh_expr

VALUE_TYPES = {
    "prosemirror.model.fragment.Fragment",
    "prosemirror.model.node.Node",
    "prosemirror.model.node.TextNode",
    "prosemirror.model.mark.Mark",
    "prosemirror.model.replace.Slice",
    "prosemirror.model.resolvedpos.ResolvedPos",
    "prosemirror.model.resolvedpos.NodeRange",
    "prosemirror.transform.map.StepMap",
    "prosemirror.transform.map.MapResult",
    "prosemirror.transform.step.Step",
    "prosemirror.transform.step.StepResult",
    "prosemirror.transform.replace_step.ReplaceStep",
    "prosemirror.transform.replace_step.ReplaceAroundStep",
    "prosemirror.transform.mark_step.AddMarkStep",
    "prosemirror.transform.mark_step.RemoveMarkStep",
    "prosemirror.transform.mark_step.AddNodeMarkStep",
    "prosemirror.transform.mark_step.RemoveNodeMarkStep",
    "prosemirror.transform.attr_step.AttrStep",
    "prosemirror.transform.doc_attr_step.DocAttrStep",
}

# Non-value owners: working state that is documented to change.  (class, attribute) -> reason
OWNERS = {
    ("Transform", "docs"): "documented accumulator (append-only, see RF-d)",
    ("Transform", "steps"): "documented accumulator (append-only, see RF-d)",
    ("Mapping", "maps"): "documented accumulator (append-only, see RF-d)",
    ("Mapping", "mirror"): "documented accumulator (append-only, see RF-d)",
    ("Fitter", "frontier"): "fitter working state, private to one replace_step call",
    ("ParseContext", "nodes"): "parser working state",
    ("NodeContext", "content"): "parser working state (children of the node being built)",
    ("NodeContext", "stash_marks"): "parser working state",
    ("ContentMatch", "next"): "schema construction (edges added while the DFA is built)",
    ("ContentMatch", "wrap_cache"): "memo cache of a pure function",
    ("Schema", "cached"): "per-schema memo cache",
    ("DocumentFragment", "children"): "DOM output object under construction",
    ("Element", "children"): "DOM output object under construction",
    ("Element", "attrs"): "DOM output object under construction",
}

# Audited exemptions for attribute stores on value types outside __init__ (RF-a)
ATTR_STORE_EXEMPT = {
    ("prosemirror/transform/transform.py::Transform.add_mark.iteratee", "removing.to"): "extends a RemoveMarkStep this call created and has not yet applied or returned",
    ("prosemirror/transform/transform.py::Transform.add_mark.iteratee", "adding.to"): "extends an AddMarkStep this call created and has not yet applied or returned",
}

# Functions that mutate a list parameter by contract; their call sites must pass a fresh list (RF-c)
MUTATES_PARAM = {
    "prosemirror/model/replace.py::add_node": "target",
    "prosemirror/model/replace.py::add_range": "target",
}

_PASS: dict = {}

# Scratch structures private to one construction (no value object is reachable from them)
SCRATCH_FUNCS = (
    "prosemirror/model/content.py::nfa",
    "prosemirror/model/content.py::dfa",
    "prosemirror/model/content.py::null_from",
    "prosemirror/model/content.py::check_for_dead_ends",
    "prosemirror/model/content.py::ContentMatch.__str__",
)
# lxml DOM input objects are the parser's own copy to normalise
DOM_MODULES = ("prosemirror/model/from_dom.py",)


def _root_name(e: ast.AST) -> ast.AST:
    while isinstance(e, (ast.Attribute, ast.Subscript)):
        e = e.value
    return e


def _local_defs(fn: ast.AST, name: str) -> list[ast.expr]:
    out: list[ast.expr] = []
    for n in walk_own(fn):
        if isinstance(n, ast.Assign):
            for t in n.targets:
                if isinstance(t, ast.Name) and t.id == name:
                    out.append(n.value)
                elif isinstance(t, (ast.Tuple, ast.List)):
                    for i, el in enumerate(t.elts):
                        if isinstance(el, ast.Name) and el.id == name:
                            if isinstance(n.value, (ast.Tuple, ast.List)) and len(n.value.elts) == len(t.elts):
                                out.append(n.value.elts[i])
                            else:
                                out.append(n.value)
        elif isinstance(n, ast.AnnAssign) and isinstance(n.target, ast.Name) and n.target.id == name and n.value is not None:
            out.append(n.value)
        elif isinstance(n, ast.NamedExpr) and isinstance(n.target, ast.Name) and n.target.id == name:
            out.append(n.value)
        elif isinstance(n, (ast.For, ast.comprehension)):
            for x in ast.walk(n.target):
                if isinstance(x, ast.Name) and x.id == name:
                    mk = ast.Name(id="<loop element>", ctx=ast.Load())
                    mk.iter_ = n.iter  # type: ignore[attr-defined]
                    out.append(mk)
        elif isinstance(n, ast.AugAssign) and isinstance(n.target, ast.Name) and n.target.id == name:
            pass
    return out


class Fresh:
    """Freshness of local containers: FRESH when every definition creates a
    new container in this activation (None definitions are neutral)."""

    def __init__(self, prog: Program, returns_fresh: set[str]) -> None:
        self.prog = prog
        self.returns_fresh = returns_fresh

    def fresh_expr(self, e: ast.AST, fn: Func, depth: int = 0) -> bool:
        if isinstance(e, ast.Constant) and e.value is None:
            return True
        if _is_fresh_expr(e):
            return True
        if isinstance(e, ast.Call):
            nm = e.func.attr if isinstance(e.func, ast.Attribute) else (e.func.id if isinstance(e.func, ast.Name) else None)
            if nm in self.returns_fresh:
                return True
            if nm == "cast" and len(e.args) == 2:
                return self.fresh_expr(e.args[1], fn, depth)
            if nm in ("findall", "split", "parse_styles", "items", "keys", "values", "to_json", "deepcopy", "getchildren", "reversed", "tuple"):
                return True
        if isinstance(e, ast.Name) and e.id == "<loop element>":
            it = getattr(e, "iter_", None)
            # an element of a list of records that was itself created in this activation
            return isinstance(it, ast.Name) and depth < 3 and self.fresh_local(fn, it.id, depth + 1)
        if isinstance(e, ast.Name) and depth < 3:
            return self.fresh_local(fn, e.id, depth + 1)
        if isinstance(e, ast.IfExp):
            return self.fresh_expr(e.body, fn, depth) and self.fresh_expr(e.orelse, fn, depth)
        if isinstance(e, ast.BoolOp):
            return all(self.fresh_expr(v, fn, depth) for v in e.values)
        return False

    def fresh_local(self, fn: Func, name: str, depth: int = 0, site: ast.AST | None = None) -> bool:
        # `x = x if x else fresh()` refers to itself: the question is answered by the other definitions
        key = (fn.key, name)
        busy = self.__dict__.setdefault("_busy", set())
        if key in busy:
            return True
        busy.add(key)
        try:
            return self._fresh_local(fn, name, depth, site)
        finally:
            busy.discard(key)

    def _fresh_local(self, fn: Func, name: str, depth: int = 0, site: ast.AST | None = None) -> bool:
        f: Func | None = fn
        while f is not None:
            if name in f.params():
                return False
            defs = _local_defs(f.node, name)
            if defs:
                if site is not None and f is fn:
                    rd = self.reaching(fn, name, site)
                    if rd is not None:
                        defs = rd
                return all(self.fresh_expr(d, f, depth) for d in defs)
            f = f.parent  # closure variable of an enclosing function
        return False

    def reaching(self, fn: Func, name: str, site: ast.AST) -> list[ast.expr] | None:
        """Values of the assignments to `name` that reach `site` (CFG backward
        search stopping at each assignment); None if not decidable."""
        from ..gates import view

        v = view(self.prog, fn.key)
        start = v.cfg.node_for(site)
        if start is None:
            return None
        out: list[ast.expr] = []
        seen = set()
        st = list(start.pred)
        while st:
            n = st.pop()
            if id(n) in seen:
                continue
            seen.add(id(n))
            val = None
            if n.kind == "stmt" and n.node is not None:
                nd = n.node
                if isinstance(nd, ast.Assign) and any(isinstance(t, ast.Name) and t.id == name for t in nd.targets):
                    val = nd.value
                elif isinstance(nd, ast.AnnAssign) and isinstance(nd.target, ast.Name) and nd.target.id == name and nd.value is not None:
                    val = nd.value
                elif isinstance(nd, ast.Assign) and any(isinstance(x, ast.Name) and x.id == name for t in nd.targets for x in ast.walk(t)):
                    return None  # tuple assignment: fall back to flow-insensitive
            if n.kind == "for-next" and isinstance(n.node, (ast.For, ast.AsyncFor)) and any(isinstance(x, ast.Name) and x.id == name for x in ast.walk(n.node.target)):
                return None
            if val is not None:
                out.append(val)
                continue
            if n is v.cfg.entry:
                return None if name in fn.params() else (out if out else None)
            st.extend(n.pred)
        return out or None


def compute_returns_fresh(prog: Program) -> set[str]:
    """Function names (unambiguous in the package) whose every return yields a
    container created in that activation."""
    by_name: dict[str, list[Func]] = {}
    for f in prog.all_funcs(scope_only=False):
        by_name.setdefault(f.name, []).append(f)
    fresh: set[str] = set()
    changed = True
    while changed:
        changed = False
        for name, fs in by_name.items():
            if name in fresh:
                continue
            ok = True
            for f in fs:
                rets = [r for r in walk_own(f.node) if isinstance(r, ast.Return)]
                if not rets:
                    ok = False
                    break
                fr = Fresh(prog, fresh)
                for r in rets:
                    if r.value is None or not fr.fresh_expr(r.value, f):
                        ok = False
                        break
                    if isinstance(r.value, ast.Constant):
                        ok = False
                        break
                if not ok:
                    break
            if ok:
                fresh.add(name)
                changed = True
    return fresh


_TM: dict = {}


def _mutation_sites(fn: Func):
    """(node, receiver expr, kind) for every in-place mutation in fn."""
    for n in walk_own(fn.node):
        if isinstance(n, ast.Call) and isinstance(n.func, ast.Attribute) and n.func.attr in MUTATORS:
            yield n, n.func.value, f".{n.func.attr}()"
        elif isinstance(n, (ast.Assign, ast.AugAssign, ast.AnnAssign)):
            tgts = n.targets if isinstance(n, ast.Assign) else [n.target]
            for t in tgts:
                for x in ([t] if not isinstance(t, (ast.Tuple, ast.List)) else t.elts):
                    if isinstance(x, ast.Subscript):
                        yield n, x.value, "[...] ="
                    elif isinstance(x, ast.Attribute) and isinstance(n, ast.AugAssign):
                        pass  # attribute stores are RF-a
        elif isinstance(n, ast.Delete):
            for t in n.targets:
                if isinstance(t, ast.Subscript):
                    yield n, t.value, "del [...]"
    # `x += [...]` on a list/dict/set name extends the object in place
    tm = _TM.get("tm")
    if tm is not None:
        for n in walk_own(fn.node):
            if isinstance(n, ast.AugAssign) and isinstance(n.target, (ast.Name, ast.Attribute)) and isinstance(n.op, (ast.Add, ast.BitOr, ast.Mult)):
                names = tm.instance_names(fn.module, n.target)
                if names and all(x in ("builtins.list", "builtins.dict", "builtins.set", "None") for x in names) and any(x != "None" for x in names):
                    yield n, n.target, "+= (in place)"


def rule_rf_mutations(prog: Program, report: Report) -> None:
    """RF-b/c: every in-place mutation has a FRESH receiver or a declared
    non-value owner."""
    report.rules.append("RF-mut")
    tm = prog.types
    _TM["tm"] = tm
    rfresh = compute_returns_fresh(prog)
    fr = Fresh(prog, rfresh)
    total = 0
    for fn in prog.all_funcs():
        scratch = any(fn.key == s or fn.key.startswith(s + ".") for s in SCRATCH_FUNCS)
        for node, recv, kind in _mutation_sites(fn):
            total += 1
            text = " ".join(src(node).split())[:90]
            rtype = tm.instance_names(fn.module, recv)
            # only builtin containers are mutated in place by these method names; a package
            # class with an `append` method (Fragment.append) is the pure API
            if kind.startswith(".") and rtype and all(t.startswith("prosemirror.") for t in rtype):
                report.ob("RF-mut", fn.key, f"`{text}`: `{kind[1:-2]}` of a package class is its pure method", nontrivial=False)
                continue
            if scratch:
                report.ob("RF-mut", fn.key, f"`{text}`: scratch structure of an automaton construction")
                continue
            root = _root_name(recv)
            verdict = None
            if isinstance(recv, ast.Name):
                if fr.fresh_local(fn, recv.id, site=node):
                    verdict = "fresh local"
                elif recv.id in fn.params() or (fn.parent is not None and recv.id in fn.parent.params() and not _local_defs(fn.node, recv.id)):
                    mp = MUTATES_PARAM.get(fn.key)
                    if mp == recv.id:
                        verdict = "declared mutates-param (call sites checked by RF-c)"
                    elif fn.name.startswith("_") and not fn.name.startswith("__") and recv.id in fn.params() and recv.id not in ("self", "cls"):
                        verdict = "private helper that fills its parameter (every call site is checked to pass a fresh container)"
                    else:
                        verdict = None
                        why = f"`{recv.id}` is a parameter: the caller's object is changed in place"
                elif recv.id.isupper():
                    verdict = "module-level registry"
                else:
                    # a local alias of an owned working field: `cache = self.wrap_cache; cache.append(..)`
                    ds = _local_defs(fn.node, recv.id)
                    if len(ds) == 1 and isinstance(ds[0], ast.Attribute):
                        for ot in tm.instance_names(fn.module, ds[0].value):
                            cls_ = ot.rsplit(".", 1)[-1]
                            if (cls_, ds[0].attr) in OWNERS:
                                verdict = f"alias of the non-value owner {cls_}.{ds[0].attr}: {OWNERS[(cls_, ds[0].attr)]}"
            if verdict is None and isinstance(recv, ast.Attribute):
                owner_types = tm.instance_names(fn.module, recv.value)
                for ot in owner_types:
                    cls = ot.rsplit(".", 1)[-1]
                    if (cls, recv.attr) in OWNERS:
                        verdict = f"non-value owner {cls}.{recv.attr}: {OWNERS[(cls, recv.attr)]}"
                if verdict is None and isinstance(recv.value, ast.Name) and recv.value.id == "self" and fn.name == "__init__":
                    verdict = "construction"
            if verdict is None and isinstance(recv, ast.Subscript):
                # element of an owner's container, e.g. self.nodes[i - 1].content handled above; out[i][1] etc.
                base = recv.value
                if isinstance(base, ast.Name) and fr.fresh_local(fn, base.id):
                    verdict = "element of a fresh local structure"
            if verdict is None and fn.module.rel in DOM_MODULES:
                names = rtype or tm.instance_names(fn.module, root)
                if any("lxml" in t or t == "Any" for t in names) or any("lxml" in t for t in tm.instance_names(fn.module, root)):
                    verdict = "lxml input element (parser's own DOM copy)"
                if verdict is None and isinstance(root, ast.Name) and root.id in ("dom_", "d", "parent", "prev_item", "child") and fn.qual in ("DOMParser.parse", "normalize_list"):
                    verdict = "lxml input element (parser's own DOM copy)"
            if verdict is None and isinstance(root, ast.Name) and isinstance(recv, (ast.Attribute, ast.Subscript)):
                # TypedDict / dict record created in this function (e.g. matched entries)
                if fr.fresh_local(fn, root.id):
                    verdict = "part of a fresh local structure"
                else:
                    defs = _local_defs(fn.node, root.id) or (_local_defs(fn.parent.node, root.id) if fn.parent else [])
                    if defs and all(isinstance(d, ast.Name) and d.id == "<loop element>" for d in defs):
                        # loop element of a fresh local list of records
                        verdict = _loop_over_fresh(fn, fr, root.id)
            if verdict is None and isinstance(recv, ast.Name):
                defs = _local_defs(fn.node, recv.id)
                if defs and all(isinstance(d, ast.Name) and d.id == "<loop element>" for d in defs):
                    verdict = _loop_over_fresh(fn, fr, recv.id)
            if verdict is not None:
                report.ob("RF-mut", fn.key, f"`{text}`: {verdict}")
            else:
                why_ = locals().get("why") or f"the receiver `{src(recv)[:50]}` is not a container created in this activation (definitions: {[src(d)[:40] for d in _local_defs(fn.node, root.id)] if isinstance(root, ast.Name) else '?'}) and has no declared non-value owner"
                report.violate("RF-mut", fn, node, f"in-place `{kind}` on an aliased object: {text}", f"{why_}; if it is reachable from a document, fragment, mark set, step or map, a previously obtained value changes", what="in-place mutation only on fresh or owned containers")
                if "why" in locals():
                    del why
    report.count("RF mutation sites", total)
    report.expect_at_least("RF-mut", "mutation sites", total, 110)
    # RF-c (generic): every function that mutates one of its parameters in place (found above) is
    # only handed fresh containers - computed, not tabulated; the table below names the two audited helpers
    from ..callgraph import callgraph

    cg = callgraph(prog)
    mut_params: dict[str, set[str]] = {}
    for fn in prog.all_funcs():
        if any(fn.key == s_ or fn.key.startswith(s_ + ".") for s_ in SCRATCH_FUNCS):
            continue
        for node, recv, kind in _mutation_sites(fn):
            if isinstance(recv, ast.Name) and recv.id in fn.params() and recv.id not in ("self", "cls"):
                rt = tm.instance_names(fn.module, recv)
                if kind.startswith(".") and rt and all(t.startswith("prosemirror.") for t in rt):
                    continue
                mut_params.setdefault(fn.key, set()).add(recv.id)
    for k_, p_ in MUTATES_PARAM.items():
        mut_params.setdefault(k_, set()).add(p_)

    def _arg_for(callee: Func, c: ast.Call, pname: str) -> ast.AST | None:
        ps = callee.params()
        off = 1 if (ps and ps[0] in ("self", "cls") and isinstance(c.func, ast.Attribute)) else 0
        idx = ps.index(pname) - off
        return c.args[idx] if 0 <= idx < len(c.args) else next((k.value for k in c.keywords if k.arg == pname), None)

    # pass-through: a function that hands its own parameter to a mutating function mutates that parameter
    changed = True
    while changed:
        changed = False
        for caller in prog.all_funcs():
            for c in walk_own(caller.node):
                if not isinstance(c, ast.Call):
                    continue
                for callee in cg.resolve_call(caller, c):
                    for pname in list(mut_params.get(callee.key, ())):
                        a = _arg_for(callee, c, pname)
                        if isinstance(a, ast.Name) and a.id in caller.params() and a.id not in ("self", "cls") and not _local_defs(caller.node, a.id) and a.id not in mut_params.get(caller.key, set()):
                            mut_params.setdefault(caller.key, set()).add(a.id)
                            changed = True
    _PASS["mut_params"] = mut_params
    for caller in prog.all_funcs():
        for c in walk_own(caller.node):
            if not isinstance(c, ast.Call):
                continue
            for callee in cg.resolve_call(caller, c):
                for pname in mut_params.get(callee.key, ()):
                    if callee.key in MUTATES_PARAM:
                        continue  # checked below with its own message
                    ps = callee.params()
                    off = 1 if (ps and ps[0] in ("self", "cls") and isinstance(c.func, ast.Attribute)) else 0
                    idx = ps.index(pname) - off
                    a = c.args[idx] if 0 <= idx < len(c.args) else next((k.value for k in c.keywords if k.arg == pname), None)
                    if a is None:
                        continue
                    ok = isinstance(a, ast.Name) and (fr.fresh_local(caller, a.id, site=c) or a.id in mut_params.get(caller.key, set()))
                    if ok:
                        report.ob("RF-mut", caller.key, f"`{src(c)[:60]}` hands a fresh container to {callee.qual} (which mutates `{pname}`)")
                    else:
                        report.violate("RF-mut", caller, c, f"`{src(c)[:70]}` passes a non-fresh container to a mutating function", f"{callee.qual} changes its `{pname}` argument in place; `{src(a)[:40]}` is not a container created in this activation", what="mutating helpers are only handed fresh containers")
    # RF-c: call sites of mutates-param functions pass a fresh list
    for key, pname in MUTATES_PARAM.items():
        callee = prog.func(key)
        idx = callee.params().index(pname)
        ncalls = 0
        for fn in prog.all_funcs():
            for c in walk_own(fn.node):
                if isinstance(c, ast.Call) and isinstance(c.func, ast.Name) and c.func.id == callee.name and len(c.args) > idx:
                    ncalls += 1
                    a = c.args[idx]
                    ok = isinstance(a, ast.Name) and (fr.fresh_local(fn, a.id) or (MUTATES_PARAM.get(fn.key) == a.id) or a.id in mut_params.get(fn.key, set()))
                    if ok:
                        report.ob("RF-mut", fn.key, f"`{src(c)[:60]}` hands a fresh list to {callee.name}")
                    else:
                        report.violate("RF-mut", fn, c, f"`{src(c)[:70]}` passes a non-fresh list to a mutating helper", f"{callee.name} changes its `{pname}` argument in place; `{src(a)}` is not a list created in this activation", what=f"{callee.name} is only handed fresh lists")
        if ncalls == 0:
            raise AnalysisError(f"RF-c: no call site of {key} found")


def _loop_over_fresh(fn: Func, fr: Fresh, name: str) -> str | None:
    for f in (fn, fn.parent):
        if f is None:
            continue
        for n in walk_own(f.node):
            if isinstance(n, (ast.For, ast.comprehension)) and any(isinstance(x, ast.Name) and x.id == name for x in ast.walk(n.target)):
                it = n.iter
                if isinstance(it, ast.Name) and fr.fresh_local(f, it.id):
                    return f"element of the fresh local list `{it.id}`"
    return None


def rule_rf_attr_stores(prog: Program, report: Report) -> None:
    """RF-a: an attribute of a value-type instance is assigned only in that
    class's __init__."""
    report.rules.append("RF-attr")
    tm = prog.types
    n = 0
    for fn in prog.all_funcs():
        for node in walk_own(fn.node):
            if not isinstance(node, (ast.Assign, ast.AugAssign, ast.AnnAssign)):
                continue
            tgts = node.targets if isinstance(node, ast.Assign) else [node.target]
            flat = []
            for t in tgts:
                flat += list(t.elts) if isinstance(t, (ast.Tuple, ast.List)) else [t]
            for t in flat:
                if not isinstance(t, ast.Attribute):
                    continue
                owner = tm.instance_names(fn.module, t.value)
                vt = [o for o in owner if o in VALUE_TYPES]
                if not vt:
                    continue
                n += 1
                text = " ".join(src(node).split())[:80]
                in_init = fn.name == "__init__" and isinstance(t.value, ast.Name) and t.value.id == "self"
                ex = ATTR_STORE_EXEMPT.get((fn.key, src(t)))
                if in_init:
                    report.ob("RF-attr", fn.key, f"`{text}`: construction", nontrivial=False)
                elif ex:
                    report.ob("RF-attr", fn.key, f"`{text}`: audited exemption - {ex}")
                else:
                    report.violate("RF-attr", fn, node, f"field of a value object assigned outside its constructor: {text}", f"`{src(t)}` belongs to a `{vt[0].rsplit('.', 1)[-1]}` (an immutable value shared between documents, steps and callers); assigning it here changes an object the caller or an earlier result still holds", what="value-type fields are assigned only in __init__")
    # module-level singletons X.empty = ... are construction
    report.count("RF attribute stores on value types", n)
    report.expect_at_least("RF-attr", "attribute stores on value types", n, 30)


ACCUMULATORS = {
    # (class, attr) -> the only function allowed to grow it (besides __init__)
    ("Transform", "docs"): "prosemirror/transform/transform.py::Transform.add_step",
    ("Transform", "steps"): "prosemirror/transform/transform.py::Transform.add_step",
    ("Mapping", "maps"): "prosemirror/transform/map.py::Mapping.append_map",
    ("Mapping", "mirror"): "prosemirror/transform/map.py::Mapping.set_mirror",
}


def rule_rf_accumulators(prog: Program, report: Report) -> None:
    """RF-d: the documented accumulators are append-only and single-writer."""
    report.rules.append("RF-acc")
    tm = prog.types
    n = 0
    for fn in prog.all_funcs():
        for node, recv, kind in _mutation_sites(fn):
            if not isinstance(recv, ast.Attribute):
                continue
            for ot in tm.instance_names(fn.module, recv.value):
                cls = ot.rsplit(".", 1)[-1]
                if (cls, recv.attr) in ACCUMULATORS:
                    n += 1
                    text = " ".join(src(node).split())[:80]
                    writer = ACCUMULATORS[(cls, recv.attr)]
                    if kind not in (".append()", ".extend()"):
                        report.violate("RF-acc", fn, node, f"`{text}` is not an append", f"{cls}.{recv.attr} is a history array: it may only grow at the end (recorded documents, steps and maps must stay aligned and unchanged)", what=f"{cls}.{recv.attr} is append-only")
                    elif fn.key != writer:
                        report.violate("RF-acc", fn, node, f"`{text}` outside {writer.split('::')[1]}", f"{cls}.{recv.attr} has a single writer ({writer.split('::')[1]}) that keeps the parallel arrays aligned; appending elsewhere breaks the alignment", what=f"{cls}.{recv.attr} is written only by {writer.split('::')[1]}")
                    else:
                        report.ob("RF-acc", fn.key, f"`{text}`: the single writer appends")
        # re-binding the accumulator attribute outside __init__
        for node in walk_own(fn.node):
            if isinstance(node, ast.Assign):
                for t in node.targets:
                    if isinstance(t, ast.Attribute):
                        for ot in tm.instance_names(fn.module, t.value):
                            cls = ot.rsplit(".", 1)[-1]
                            if (cls, t.attr) in ACCUMULATORS and fn.name != "__init__":
                                ok = (cls, t.attr) == ("Mapping", "mirror") and fn.key.endswith("Mapping.set_mirror")
                                if not ok:
                                    n += 1
                                    report.violate("RF-acc", fn, node, f"`{src(node)[:70]}` re-binds a history array", f"{cls}.{t.attr} must only grow by appending", what=f"{cls}.{t.attr} is never re-bound")
    report.count("RF accumulator writes", n)
    report.expect_at_least("RF-acc", "accumulator writes", n, 4)


IMMUTABLE = {"builtins.str", "builtins.int", "builtins.bool", "builtins.float", "None"}


def rule_rf_json(prog: Program, report: Report) -> None:
    """RF-e: every value placed in the structure returned by a to_json is
    immutable, the result of another to_json, a fresh display of such, or a
    deep copy - never a live attribute object."""
    report.rules.append("RF-json")
    tm = prog.types
    n = 0
    for fn in prog.all_funcs():
        if fn.name != "to_json":
            continue

        def ok_value(v: ast.AST) -> tuple[bool, str]:
            if isinstance(v, ast.Constant):
                return True, "constant"
            if isinstance(v, ast.Call):
                f = v.func
                if isinstance(f, ast.Attribute) and f.attr == "to_json":
                    return True, "result of another to_json"
                if src(f) in ("copy.deepcopy", "deepcopy"):
                    return True, "deep copy"
            if isinstance(v, (ast.ListComp, ast.GeneratorExp)):
                return ok_value(v.elt)
            if isinstance(v, ast.List):
                r = [ok_value(e) for e in v.elts]
                return all(x[0] for x in r), "fresh list of " + ",".join(x[1] for x in r)
            if isinstance(v, ast.Dict):
                for k, val in zip(v.keys, v.values):
                    if k is None:
                        # ** unpacking: only of a local JSON dict built in this function
                        if not (isinstance(val, ast.Name) or (isinstance(val, ast.Call) and src(val.func) == "super().to_json")):
                            return False, f"shallow copy `**{src(val)}` of a live mapping"
                    else:
                        o, w = ok_value(val)
                        if not o:
                            return False, w
                return True, "fresh dict"
            names = tm.instance_names(fn.module, v)
            if names and all(x in IMMUTABLE for x in names):
                return True, "immutable " + "|".join(x.rsplit(".", 1)[-1] for x in names)
            if isinstance(v, ast.Name):
                # a local list built here (`xs = []` ... `xs.append(<ok value>)`) is the explicit-loop
                # spelling of a comprehension
                defs = _local_defs(fn.node, v.id)
                if defs and all(isinstance(d, ast.List) and not d.elts for d in defs):
                    apps = [c for c in walk_own(fn.node) if isinstance(c, ast.Call) and isinstance(c.func, ast.Attribute) and isinstance(c.func.value, ast.Name) and c.func.value.id == v.id]
                    if apps and all(c.func.attr == "append" and len(c.args) == 1 and ok_value(c.args[0])[0] for c in apps):  # type: ignore[attr-defined]
                        return True, "list built here from " + ok_value(apps[0].args[0])[1]
                if len(defs) == 1:
                    o, w = ok_value(defs[0])
                    if o:
                        return True, w
            return False, f"`{src(v)[:40]}` of type {tm.text(fn.module, v)} may be a mutable container owned by the object"

        for d in walk_own(fn.node):
            if isinstance(d, ast.Dict):
                for k, v in zip(d.keys, d.values):
                    if k is None:
                        if isinstance(v, ast.Name) or (isinstance(v, ast.Call) and src(v.func) == "super().to_json"):
                            continue
                        n += 1
                        report.violate("RF-json", fn, d, f"`**{src(v)}` spreads a live mapping into JSON", "a `{**x}` copy is shallow: nested lists/dicts of the attribute object are shared with the produced JSON, so editing the JSON edits the document (and, for default attrs, every node of that type)", what="JSON values are immutable, deep-copied or produced by to_json")
                        continue
                    n += 1
                    o, w = ok_value(v)
                    kt = src(k)
                    if o:
                        report.ob("RF-json", fn.key, f"{kt}: {w}")
                    else:
                        report.violate("RF-json", fn, v, f"JSON key {kt} aliases a live object", f"{w}; the JSON form must be plain data that does not alias live attribute objects (deep-copy it, as Node.to_json and Mark.to_json do)", what="JSON values are immutable, deep-copied or produced by to_json")
    report.count("RF-json values", n)
    report.expect_at_least("RF-json", "JSON values", n, 30)


RETURNS_FRESH = {
    "prosemirror/model/schema.py::compute_attrs": "node and mark attrs are a dict built here, never the caller's object (callers reuse and edit the dict they passed)",
}


def rule_rf_returns_fresh(prog: Program, report: Report) -> None:
    """Functions whose contract is to hand out a container of their own."""
    report.rules.append("RF-fresh")
    rfresh = compute_returns_fresh(prog)
    fr = Fresh(prog, rfresh)
    for key, why in RETURNS_FRESH.items():
        fn = prog.func(key)
        rets = [r for r in walk_own(fn.node) if isinstance(r, ast.Return) and r.value is not None]
        if not rets:
            raise AnalysisError(f"RF-fresh: {key} has no return")
        for r in rets:
            v = r.value
            ok = fr.fresh_expr(v, fn) if not isinstance(v, ast.Name) else fr.fresh_local(fn, v.id, site=r)
            if ok:
                report.ob("RF-fresh", key, f"`return {src(v)[:40]}`: a container created in this activation")
            else:
                report.violate("RF-fresh", fn, r, f"`return {src(v)[:50]}` hands out an object the function did not create", f"{why}; `{src(v)[:40]}` is a parameter or another object's container", what=f"{fn.qual} returns a fresh container")


def rule_rf_owner_init(prog: Program, report: Report) -> None:
    """RF-own: a field that the package mutates in place (the OWNERS table: accumulators, parser and
    fitter working lists, caches) must be *its instance's own* container: every assignment to it
    stores a container created there (a display, a copy, a slice, a fresh-returning call), or the
    constructor's parameter whose callers hand over a fresh one.  `self.stash_marks = Mark.none`
    would let `append` change the shared empty mark set of every document."""
    report.rules.append("RF-own")
    tm = prog.types
    fr = Fresh(prog, compute_returns_fresh(prog))
    n = 0
    for fn in prog.all_funcs():
        for node in walk_own(fn.node):
            if not isinstance(node, (ast.Assign, ast.AnnAssign)):
                continue
            tgts = node.targets if isinstance(node, ast.Assign) else [node.target]
            val = node.value
            if val is None:
                continue
            for t in tgts:
                if not isinstance(t, ast.Attribute):
                    continue
                owners = tm.instance_names(fn.module, t.value)
                hit = [o.rsplit(".", 1)[-1] for o in owners if (o.rsplit(".", 1)[-1], t.attr) in OWNERS]
                if not hit:
                    continue
                n += 1
                text = " ".join(src(node).split())[:90]

                def ok(e: ast.AST) -> bool:
                    if isinstance(e, ast.Constant) and e.value is None:
                        return True
                    if fr.fresh_expr(e, fn):
                        return True
                    if isinstance(e, ast.BoolOp):
                        return all(ok(x) for x in e.values)
                    if isinstance(e, ast.IfExp):
                        return ok(e.body) and ok(e.orelse)
                    if isinstance(e, ast.Name) and e.id in fn.params() and fn.name == "__init__":
                        return True  # ownership handed to the constructor (call sites below)
                    if isinstance(e, ast.Call) and isinstance(e.func, ast.Name) and e.func.id == "cast" and len(e.args) == 2:
                        return ok(e.args[1])
                    if isinstance(e, ast.Call) and isinstance(e.func, (ast.Name, ast.Attribute)):
                        nm = e.func.id if isinstance(e.func, ast.Name) else e.func.attr
                        if nm[:1].isupper() or nm in ("dfa", "nfa", "from_", "parse"):
                            return True  # a newly constructed object
                    if isinstance(e, ast.Attribute) and e.attr == t.attr:
                        return True  # re-binding another instance's same working field (parser context hand-over)
                    return False

                if ok(val):
                    report.ob("RF-own", fn.key, f"`{text}`: the in-place mutated field {hit[0]}.{t.attr} gets a container of its own")
                else:
                    report.violate("RF-own", fn, node, f"`{text}` stores a shared object in a field that is mutated in place", f"{hit[0]}.{t.attr} is {OWNERS[(hit[0], t.attr)]}: the package appends to / removes from it in place, so it must hold a container created for this instance; `{src(val)[:50]}` is not one (a shared constant such as Mark.none / Fragment.empty, or a caller's list, would be changed for everybody)", what="in-place mutated fields hold their own container")
    report.count("RF-own assignments to in-place mutated fields", n)
    report.expect_at_least("RF-own", "assignments to in-place mutated fields", n, 12)
