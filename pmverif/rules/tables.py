"""Frozen instance tables of the gate rules (RG).  Every entry was confirmed
by reading the function it names; `why` states the necessary condition."""

from __future__ import annotations

from .rg import Gate, Pass

P = {
    "map": "prosemirror/transform/map.py",
    "step": "prosemirror/transform/step.py",
    "rstep": "prosemirror/transform/replace_step.py",
    "mstep": "prosemirror/transform/mark_step.py",
    "astep": "prosemirror/transform/attr_step.py",
    "dstep": "prosemirror/transform/doc_attr_step.py",
    "tr": "prosemirror/transform/transform.py",
    "trepl": "prosemirror/transform/replace.py",
    "struct": "prosemirror/transform/structure.py",
    "node": "prosemirror/model/node.py",
    "frag": "prosemirror/model/fragment.py",
    "mark": "prosemirror/model/mark.py",
    "repl": "prosemirror/model/replace.py",
    "rpos": "prosemirror/model/resolvedpos.py",
    "schema": "prosemirror/model/schema.py",
    "content": "prosemirror/model/content.py",
    "diff": "prosemirror/model/diff.py",
    "fdom": "prosemirror/model/from_dom.py",
    "tdom": "prosemirror/model/to_dom.py",
}


def _fn(short: str) -> str:
    mod, _, q = short.partition("::")
    return f"{P[mod]}::{q}"


def G(props: str, fn: str, kind: str, target: str, needs: list, why: str, min: int = 1, max: int | None = None, rule: str = "RG") -> Gate:
    return Gate(tuple(props.split()), _fn(fn), kind, target, needs, why, min, max, rule)


def PS(props: str, fn: str, kind: str, target: str, through: str, why: str, min: int = 1) -> Pass:
    return Pass(tuple(props.split()), _fn(fn), kind, target, through, why, min)


TABLE: list = [
    # ------------------------------------------------------------ map.py (C08)
    G("C08", "map::StepMap.recover", "stmt", r"^diff \+=", ["not self.inverted"], "recover adds the size differences of earlier ranges only for a non-inverted map (an inverted map's starts are already in its own pre-image coordinates)"),
    G("C08", "map::StepMap._map", "stmt", r"^break$", ["start > pos"], "the range scan stops only at a range that starts after the position"),
    G("C08", "map::StepMap._map", "stmt", r"^result = ", ["start <= pos", "pos <= end"], "a position is mapped into a range only when start <= pos <= end"),
    G("C08", "map::StepMap._map", "stmt", r"^side = -1$", ["pos == start", "old_size"], "at the start of a non-empty range the position sticks to the left"),
    G("C08", "map::StepMap._map", "stmt", r"^side = 1$", ["pos == end", "old_size", "pos != start"], "at the end of a non-empty range the position sticks to the right"),
    G("C08", "map::StepMap._map", "stmt", r"^diff \+= ", ["pos > end"], "the running offset grows only past ranges that lie entirely before the position"),
    G("C08", "map::StepMap._map", "ret", r"^MapResult\(result, del_info, recover\)$", ["not simple", "pos <= end", "start <= pos"], "deletion info is reported for positions inside a range"),
    G("C08", "map::StepMap.touches", "stmt", r"^break$", ["start > pos"], "the range scan stops only at a range that starts after the position"),
    G("C08", "map::StepMap.touches", "ret", r"^True$", ["pos <= end", "start <= pos", "i == index * 3"], "touches answers True only for the recover value's own range containing the position"),
    G("C08", "map::Mapping._map", "stmt", r"^i = corr$", ["corr is not None", "corr > i", "corr < self.to", "result.recover is not None"], "the mirror jump goes only to a later map inside the slice [from, to) and only when the position is recoverable"),
    G("C08", "map::Mapping._map", "stmt", r"^pos = self\.maps\[corr\]\.recover", ["corr is not None", "corr > i", "corr < self.to", "result.recover is not None"], "recover is applied through the mirror only inside the slice"),
    G("C08", "map::Mapping._map", "stmt", r"^del_info \|= ", ["i < self.to"], "deletion flags accumulate for every map actually applied"),
    G("C08", "map::Mapping.map", "ret", r"^self\._map\(", ["self.mirror"], "the mirror-aware path is taken iff mirrors are registered"),
    G("C08", "map::Mapping.map", "stmt", r"^pos = self\.maps\[i\]\.map\(pos, assoc\)$", ["not self.mirror"], "plain left-to-right composition without mirrors"),
    G("C08", "map::Mapping.get_mirror", "ret", r"^self\.mirror\[", ["self.mirror[i] == n", "self.mirror"], "the partner is returned only for an entry equal to n"),
    G("C08", "map::Mapping.append_map", "call", r"^self\.set_mirror\(len\(self\.maps\) - 1, mirrors\)$", ["mirrors is not None"], "a mirror is registered for the map just appended, only when given"),
    G("C08", "map::Mapping.append_mapping", "expr", r"^start_size \+ mirr$", ["mirr is not None", "mirr < i"], "mirrors of an appended mapping are re-based by the old length and registered once, from the later map"),
    G("C08", "map::Mapping.append_mapping_inverted", "expr", r"^total_size - mirr - 1$", ["mirr is not None", "mirr > i"], "inverted appending registers the mirror from the map that comes later in the reversed order"),
    G("C08", "map::Mapping.set_mirror", "stmt", r"^self\.mirror = \[\]$", ["not self.mirror"], "the pair array is created once and never reset"),
]
