"""Frozen instance tables of the gate rules (RG).  Every entry was confirmed
by reading the function it names; `why` states the necessary condition."""

from __future__ import annotations

from .rg import Form, Gate, Must, Pass

P = {
    "map": "prosemirror/transform/map.py",
    "step": "prosemirror/transform/step.py",
    "rstep": "prosemirror/transform/replace_step.py",
    "mstep": "prosemirror/transform/mark_step.py",
    "astep": "prosemirror/transform/attr_step.py",
    "dstep": "prosemirror/transform/doc_attr_step.py",
    "tr": "prosemirror/transform/transform.py",
    "trepl": "prosemirror/transform/replace.py",
    "struct": "prosemirror/transform/structure.py",
    "node": "prosemirror/model/node.py",
    "frag": "prosemirror/model/fragment.py",
    "mark": "prosemirror/model/mark.py",
    "repl": "prosemirror/model/replace.py",
    "rpos": "prosemirror/model/resolvedpos.py",
    "schema": "prosemirror/model/schema.py",
    "content": "prosemirror/model/content.py",
    "diff": "prosemirror/model/diff.py",
    "fdom": "prosemirror/model/from_dom.py",
    "tdom": "prosemirror/model/to_dom.py",
}


def _fn(short: str) -> str:
    mod, _, q = short.partition("::")
    return f"{P[mod]}::{q}"


def G(props: str, fn: str, kind: str, target: str, needs: list, why: str, min: int = 1, max: int | None = None, rule: str = "RG", forbid: tuple = (), exact: bool = False, nonnull: str | None = None) -> Gate:
    return Gate(tuple(props.split()), _fn(fn), kind, target, needs, why, min, max, rule, tuple(forbid), exact, nonnull)


def F(props: str, fn: str, kind: str, target: str, form: str, why: str, min: int = 1) -> Form:
    return Form(tuple(props.split()), _fn(fn), kind, target, form, why, min)


def M(props: str, fn: str, under: list, contains: str, why: str) -> Must:
    return Must(tuple(props.split()), _fn(fn), under, contains, why)


def PS(props: str, fn: str, kind: str, target: str, through: str, why: str, min: int = 1) -> Pass:
    return Pass(tuple(props.split()), _fn(fn), kind, target, through, why, min)


TABLE: list = [
    # ------------------------------------------------------------ map.py (C08)
    G("C08", "map::StepMap.recover", "stmt", r"^diff \+=", ["not self.inverted"], "recover adds the size differences of earlier ranges only for a non-inverted map (an inverted map's starts are already in its own pre-image coordinates)"),
    G("C08", "map::StepMap._map", "stmt", r"^break$", ["start > pos"], "the range scan stops only at a range that starts after the position"),
    G("C08", "map::StepMap._map", "stmt", r"^result = ", ["start <= pos", "pos <= end"], "a position is mapped into a range only when start <= pos <= end"),
    G("C08", "map::StepMap._map", "stmt", r"^side = -1$", ["pos == start", "old_size"], "at the start of a non-empty range the position sticks to the left"),
    G("C08", "map::StepMap._map", "stmt", r"^side = 1$", ["pos == end", "old_size", "pos != start"], "at the end of a non-empty range the position sticks to the right"),
    G("C08", "map::StepMap._map", "stmt", r"^diff \+= ", ["pos > end"], "the running offset grows only past ranges that lie entirely before the position"),
    G("C08", "map::StepMap._map", "ret", r"^MapResult\(result, del_info, recover\)$", ["not simple", "pos <= end", "start <= pos"], "deletion info is reported for positions inside a range"),
    G("C08", "map::StepMap.touches", "stmt", r"^break$", ["start > pos"], "the range scan stops only at a range that starts after the position"),
    G("C08", "map::StepMap.touches", "ret", r"^True$", ["pos <= end", "start <= pos", "i == index * 3"], "touches answers True only for the recover value's own range containing the position"),
    G("C08", "map::Mapping._map", "stmt", r"^i = corr$", ["corr is not None", "corr > i", "corr < self.to", "result.recover is not None"], "the mirror jump goes only to a later map inside the slice [from, to) and only when the position is recoverable"),
    G("C08", "map::Mapping._map", "stmt", r"^pos = self\.maps\[corr\]\.recover", ["corr is not None", "corr > i", "corr < self.to", "result.recover is not None"], "recover is applied through the mirror only inside the slice"),
    G("C08", "map::Mapping._map", "stmt", r"^del_info \|= ", ["i < self.to"], "deletion flags accumulate for every map actually applied"),
    G("C08", "map::Mapping.map", "ret", r"^self\._map\(", ["self.mirror"], "the mirror-aware path is taken iff mirrors are registered"),
    G("C08", "map::Mapping.map", "stmt", r"^pos = self\.maps\[i\]\.map\(pos, assoc\)$", ["not self.mirror"], "plain left-to-right composition without mirrors"),
    G("C08", "map::Mapping.get_mirror", "ret", r"^self\.mirror\[", ["self.mirror[i] == n", "self.mirror"], "the partner is returned only for an entry equal to n"),
    G("C08", "map::Mapping.append_map", "call", r"^self\.set_mirror\(len\(self\.maps\) - 1, mirrors\)$", ["mirrors is not None"], "a mirror is registered for the map just appended, only when given"),
    G("C08", "map::Mapping.append_mapping", "expr", r"^start_size \+ mirr$", ["mirr is not None", "mirr < i"], "mirrors of an appended mapping are re-based by the old length and registered once, from the later map"),
    G("C08", "map::Mapping.append_mapping_inverted", "expr", r"^total_size - mirr - 1$", ["mirr is not None", "mirr > i"], "inverted appending registers the mirror from the map that comes later in the reversed order"),
    G("C08", "map::Mapping.set_mirror", "stmt", r"^self\.mirror = \[\]$", ["not self.mirror"], "the pair array is created once and never reset"),

    # ------------------------------------------------ model/replace.py (C01 C02)
    G("C01 C02", "repl::insert_into", "ret", r"^content(?!\.replace_child)", [["not parent", "parent.can_replace(index, index, insert)"]], "the gap content lands in a node only after that node accepted it (can_replace), unless it lands at the top level of the slice"),
    G("C01 C02", "repl::insert_into", "ret", r"^content\.replace_child\(index, child\.copy\(inner\)\)$", ["inner"], "a rebuilt child is returned only when the insertion below it succeeded"),
    G("C01 C02", "repl::replace", "ret", r"^replace_outer\(", ["slice.open_start <= from_.depth", "from_.depth - slice.open_start == to.depth - slice.open_end"], "both open-depth consistency errors are raised before any rebuild"),
    G("C01 C02", "repl::close", "ret", r"^node\.copy\(content\)$", ["node.type.valid_content(content)"], "close() returns a rebuilt node only with valid content"),
    G("C01 C02", "repl::check_join", "stmt", r"^raise ReplaceError", ["not sub.type.compatible_content(main.type)"], "incompatible joins raise the replace error"),
    F("C01 C02", "repl::replace_outer", "ret", r".", r"^(close\(|node\.copy\(node\.content\.replace_child\(index, inner\)\)$)", "every node leaving replace_outer is validated by close() or is the audited same-type pass-through of an inner result"),
    F("C01 C02", "repl::replace_three_way", "arg:0", r"^add_node\(", r"^close\(", "rebuilt nodes enter a result list only through close()", min=3),
    F("C01 C02", "repl::replace_two_way", "arg:0", r"^add_node\(", r"^close\(", "rebuilt nodes enter a result list only through close()"),
    F("C01 C02", "repl::joinable", "stmt", r"^check_join\(", r"^check_join\(node, after\.node\(depth\)\)$", "joinable checks the two nodes it joins"),
    G("C02", "repl::add_node", "stmt", r"^target\[last\] = child\.with_text\(", ["last >= 0", "pm_node.is_text(child)", "child.same_markup(target[last])"], "text is merged only into an adjacent text node with the same markup"),
    Pass(("C01", "C02"), "prosemirror/model/replace.py::replace_three_way", "call", r"^close\(open_start, replace_three_way\(", r"check_join\(open_start, open_end\)", "the two open sides are joined into one node only after check_join accepted the pair"),
    # ------------------------------------------------ transform/step.py, replace_step.py (C01 C03 C16 C17)
    G("C01", "rstep::ReplaceStep.apply", "ret", r"^StepResult\.from_replace\(", [["not self.structure", "not content_between(doc, self.from_, self.to)"]], "a structure-flagged replace never overwrites content"),
    G("C01", "rstep::ReplaceAroundStep.apply", "ret", r"^StepResult\.from_replace\(", [["not self.structure", "not content_between(doc, self.from_, self.gap_from)"], ["not self.structure", "not content_between(doc, self.gap_to, self.to)"], "not gap.open_start", "not gap.open_end", "inserted"], "a structure-flagged gap replace overwrites nothing, the gap is flat and its content fits"),
    G("C17", "rstep::ReplaceStep.map", "ret", r"^ReplaceStep\(", [["not from_.deleted", "not to.deleted"]], "a replace step is dropped only when both ends were deleted"),
    G("C17", "rstep::ReplaceAroundStep.map", "ret", r"^ReplaceAroundStep\(", [["not from_.deleted", "not to.deleted"], "gap_from >= from_.pos", "gap_to <= to.pos"], "a rebased gap step is kept iff the mapped gap still lies inside the mapped range"),
    G("C17", "mstep::AddMarkStep.map", "ret", r"^AddMarkStep\(", [["not from_.deleted", "not to.deleted"], "from_.pos <= to.pos"], "a mark step is dropped only when swallowed"),
    G("C17", "mstep::RemoveMarkStep.map", "ret", r"^RemoveMarkStep\(", [["not from_.deleted", "not to.deleted"], "from_.pos <= to.pos"], "a mark step is dropped only when swallowed"),
    G("C17", "mstep::AddNodeMarkStep.map", "expr", r"^AddNodeMarkStep\(pos\.pos, self\.mark\)$", ["not pos.deleted_after"], "a node step survives unless the node after its position was deleted", exact=True),
    G("C17", "mstep::RemoveNodeMarkStep.map", "expr", r"^RemoveNodeMarkStep\(pos\.pos, self\.mark\)$", ["not pos.deleted_after"], "a node step survives unless the node after its position was deleted", exact=True),
    G("C17", "astep::AttrStep.map", "expr", r"^AttrStep\(pos\.pos, self\.attr, self\.value\)$", ["not pos.deleted_after"], "a node step survives unless the node after its position was deleted", exact=True),
    G("C16", "rstep::ReplaceStep.merge", "ret", r"^ReplaceStep\(self\.from_, self\.to \+ \(other\.to - other\.from_\), slice, self\.structure\)$", ["isinstance(other, ReplaceStep)", "not other.structure", "not self.structure", "self.from_ + self.slice.size == other.from_", "not self.slice.open_end", "not other.slice.open_start"], "forward merge needs adjacency and closed glued sides"),
    G("C16", "rstep::ReplaceStep.merge", "ret", r"^ReplaceStep\(other\.from_, self\.to, slice, self\.structure\)$", ["isinstance(other, ReplaceStep)", "not other.structure", "not self.structure", "other.to == self.from_", "not self.slice.open_start", "not other.slice.open_end"], "backward merge needs adjacency and closed glued sides"),
    G("C16", "mstep::AddMarkStep.merge", "ret", r"^AddMarkStep\(min\(self\.from_, other\.from_\), max\(self\.to, other\.to\), self\.mark\)$", ["isinstance(other, AddMarkStep)", "other.mark.eq(self.mark)", "self.from_ <= other.to", "self.to >= other.from_"], "mark steps merge only for an equal mark (type and attributes) on overlapping or touching ranges"),
    G("C16", "mstep::RemoveMarkStep.merge", "ret", r"^RemoveMarkStep\(min\(self\.from_, other\.from_\), max\(self\.to, other\.to\), self\.mark\)$", ["isinstance(other, RemoveMarkStep)", "other.mark.eq(self.mark)", "self.from_ <= other.to", "self.to >= other.from_"], "mark steps merge only for an equal mark (type and attributes) on overlapping or touching ranges"),
    # ------------------------------------------------ mark_step.py / attr_step.py (C01 C04 C13)
    G("C01 C13", "mstep::AddMarkStep.apply.iteratee", "ret", r"^node\.mark\(self\.mark\.add_to_set\(node\.marks\)\)$", [["not parent", "parent.type.allows_mark_type(self.mark.type)"], ["not parent", "node.is_atom"]], "a node is marked only when it is an inline leaf/text node whose parent allows the mark type"),
    G("C01", "mstep::AddNodeMarkStep.apply", "ret", r"^StepResult\.from_replace\(", ["node"], "no node at the position fails the step"),
    G("C01", "mstep::RemoveNodeMarkStep.apply", "ret", r"^StepResult\.from_replace\(", ["node"], "no node at the position fails the step"),
    G("C01", "astep::AttrStep.apply", "ret", r"^StepResult\.from_replace\(", ["node"], "no node at the position fails the step"),
    G("C04", "mstep::AddNodeMarkStep.invert", "ret", r"^AddNodeMarkStep\(self\.pos, node\.marks\[i\]\)$", ["node", "len(new_set) == len(node.marks)", "not node.marks[i].is_in_set(new_set)"], "the inverse re-adds exactly the mark that the added mark displaced (the one no longer in the new set)"),
    G("C04", "mstep::AddNodeMarkStep.invert", "ret", r"^RemoveNodeMarkStep\(self\.pos, self\.mark\)$", [["not node", "len(new_set) != len(node.marks)"]], "adding a new mark is undone by removing it"),
    G("C04", "mstep::RemoveNodeMarkStep.invert", "ret", r"^AddNodeMarkStep\(self\.pos, self\.mark\)$", ["node", "self.mark.is_in_set(node.marks)"], "removing a mark that was present is undone by adding it back"),
    # ------------------------------------------------ transform.py (C04 C13 C12 C18)
    G("C04 C13", "tr::Transform.add_mark.iteratee", "stmt", r"^removing\.to = end$", ["removing", "removing.to == start", "removing.mark.eq(marks[i])", "not marks[i].is_in_set(new_set)"], "a pending removal is extended only over the directly adjacent node and only for an equal mark (type and attributes)"),
    G("C04 C13", "tr::Transform.add_mark.iteratee", "stmt", r"^adding\.to = end$", ["adding", "adding.to == start", "not mark.is_in_set(marks)", "parent", "parent.type.allows_mark_type(mark.type)"], "the pending add step is extended only over the directly adjacent node, where the mark is absent and allowed"),
    G("C04 C13", "tr::Transform.add_mark.iteratee", "stmt", r"^adding = AddMarkStep\(start, end, mark\)$", ["not mark.is_in_set(marks)", "parent", "parent.type.allows_mark_type(mark.type)"], "a mark is added only where it is absent and the parent allows it"),
    G("C04 C13", "tr::Transform.add_mark.iteratee", "stmt", r"^removing = RemoveMarkStep\(start, end, marks\[i\]\)$", ["not marks[i].is_in_set(new_set)"], "only marks displaced by the new mark are removed"),
    G("C13", "tr::Transform.remove_mark.iteratee", "stmt", r"^found\['to'\] = end$", ["re:truthy\\(style\\.eq\\(.*\\)\\)|truthy\\(.*\\.eq\\(style\\)\\)", "re:.*\\['step'\\] == step - 1"], "a matched range is extended only from the directly preceding inline node and for an equal mark (type and attributes)", nonnull="found"),
    G("C13", "tr::Transform.remove_mark.iteratee", "stmt", r"^found = m$", ["m['step'] == step - 1", "style.eq(m['style'])"], "a matched range is extended only from the directly preceding inline node and for an equal mark (type and attributes)"),
    G("C13", "tr::Transform.clear_incompatible", "call", r"^repl_steps\.append\(ReplaceStep\(cur, end, Slice\.empty\)\)$", ["not allowed"], "only children the new type cannot hold are deleted"),
    G("C13", "tr::Transform.clear_incompatible", "call", r"^self\.step\(RemoveMarkStep\(cur, end, child\.marks\[j\]\)\)$", ["allowed", "not parent_type.allows_mark_type(child.marks[j].type)"], "only marks the new parent type forbids are removed"),
    G("C04", "tr::Transform.maybe_step", "call", r"^self\.add_step\(step, result\.doc\)$", ["not result.failed", "result.doc"], "nothing is recorded when a step is rejected"),
    G("C04", "tr::Transform.step", "stmt", r"^raise TransformError", ["result.failed"], "step() raises exactly on a failed result"),
    F("C12", "tr::Transform.lift", "arg:-1", r"^ReplaceAroundStep\(", r"^True$", "lift is a structure-flagged step (it may only change structure)"),
    F("C12", "tr::Transform.wrap", "arg:-1", r"^ReplaceAroundStep\(", r"^True$", "wrap is a structure-flagged step"),
    F("C12", "tr::Transform.split", "arg:-1", r"^ReplaceStep\(", r"^True$", "split is a structure-flagged step"),
    F("C12", "tr::Transform.join", "arg:-1", r"^ReplaceStep\(", r"^True$", "join is a structure-flagged step"),
    G("C18", "tr::Transform.replace_range", "stmt", r"^(preferred_target = d|target_depths\.insert\(1, -d\))$", ["not spec.get('isolating')"], "the preferred-depth search never walks out of an isolating ancestor", min=2),
    # ------------------------------------------------ transform/replace.py (C11 C18)
    G("C18 C11", "trepl::covered_depths", "call", r"^result\.append\(d\)$", ["not from__.node(d).type.spec.get('isolating')", "not to_.node(d).type.spec.get('isolating')"], "range expansion stops below an isolating ancestor: its depth is never reported as covered"),
    G("C18 C11", "trepl::Fitter.find_fittable", "stmt", r"^start_depth = d$", ["node.type.spec.get('isolating')", "open_end <= d"], "the fitter does not open isolating nodes of the slice past their end"),
    F("C11", "trepl::Fitter.place_nodes", "arg:0", r"^close_node_start\(", r"^next_\.mark\(type_\.allowed_marks\(next_\.marks\)\)$", "every placed node is filtered to the marks the frontier node type allows"),
    G("C11", "trepl::Fitter.place_nodes", "stmt", r"^match = matches$", ["matches"], "the frontier match advances only through nodes it accepts"),
    # ------------------------------------------------ structure.py (C12 C18)
    G("C12 C18", "struct::lift_target", "stmt", r"^depth -= 1$", ["depth != 0", "not node.type.spec.get('isolating')", "can_cut(node, index, end_index)"], "the lift target search moves outward only through non-isolating nodes that can be cut", min=1),
    G("C12", "struct::lift_target", "ret", r"^depth$", ["depth < range_.depth", "node.can_replace(index, end_index, content)"], "a lift depth is approved only if the parent there can hold the lifted content"),
    G("C12 C18", "struct::can_split", "ret", r"^pos_\.node\(base\)\.can_replace_with\(", ["base >= 0", "not pos_.parent.type.spec.get('isolating')", "pos_.parent.can_replace(pos_.index(), pos_.parent.child_count)"], "a split is approved only inside a non-isolating parent whose tail can be cut off"),
    G("C12 C18", "struct::can_split", "stmt", r"^d -= 1$", ["not node.type.spec.get('isolating')", "node.can_replace(index + 1, node.child_count)", "after.type.valid_content(rest)"], "every split level is non-isolating, can lose its tail, and the tail is valid content of the node after"),
    G("C12", "struct::joinable", "ret", r"^a\.can_append\(b\)$", ["a", "b", "not a.is_leaf"], "only two existing nodes, the first not a leaf, can be joined"),
    G("C12", "struct::join_point", "ret", r"^pos$", ["before", "not before.is_textblock", "joinable(before, after)", "pos_.node(d).can_replace(index, index + 1)"], "a join point is approved only where the two blocks are joinable and the parent accepts losing one child"),
    G("C12", "struct::find_wrapping_inside", "ret", r"^inside$", ["inner_match", "inner_match.valid_end"], "an inner wrapping is approved only if the wrapped range is complete content of the innermost wrapper"),
    G("C12", "struct::drop_point", "ret", r"^pos_\.(pos|before\(d \+ 1\)|after\(d \+ 1\))$", ["fits"], "a drop point is returned only where the content fits", min=3),
    # ------------------------------------------------ model/node.py (C07 C09 C02)
    G("C07", "node::Node.can_replace", "ret", r"^True$", ["two", "two.valid_end"], "a replacement is approved only if prefix + replacement + suffix ends in a valid end state"),
    G("C07", "node::Node.can_replace", "ret", r"^False$", [["not two", "not two.valid_end", "not self.type.allows_marks(replacement.child(i).marks)"]], "a replacement is refused only for a content or mark reason", min=2),
    F("C07", "node::Node.can_replace", "stmt", r"^one = ", r"^one = self\.content_match_at\(from_\)\.match_fragment\(replacement, start, end\)$", "the replacement sub-range start..end is matched from the state after the prefix"),
    F("C07", "node::Node.can_replace", "stmt", r"^two = one", r"^two = one\.match_fragment\(self\.content, to\)$", "the suffix is matched from `to`"),
    G("C07", "node::Node.can_replace_with", "expr", r"^end\.valid_end$", [["not marks", "self.type.allows_marks(marks)"], "end"], "a node type is approved only if its marks are allowed and the suffix still matches"),
    G("C07", "node::Node.check", "stmt", r"^msg = f'Invalid collection of marks", ["not Mark.same_set(copy, self.marks)"], "check() rejects a mark set that differs from its canonical rebuild"),
    M("C07", "node::Node.check", [], r"^copy = mark\.add_to_set\(copy\)$", "the canonical form of a mark set is rebuilt by folding add_to_set (which applies order, duplicates and exclusion)"),
    G("C07", "node::Node.check", "stmt", r"^msg = f'Invalid content for node", ["not self.type.valid_content(self.content)"], "check() rejects invalid content"),
    G("C02 C09", "node::TextNode.cut", "ret", r"^self$", ["from_ == 0", "to == text_length(self.text)"], "the whole-node shortcut is taken only for the whole UTF-16 range"),
    G("C02", "node::Node.cut", "ret", r"^self$", ["from_ == 0", "to == self.content.size"], "the whole-node shortcut is taken only for the whole content range"),
    G("C10 C02", "node::Node.copy", "ret", r"^self$", ["content == self.content"], "copy() returns the same node only for identical content"),
    # ------------------------------------------------ model/fragment.py (C02 C09 C16)
    G("C09 C12", "frag::Fragment.maybe_child", "expr", r"^self\.content\[index\]$", ["index >= 0"], "Python resolves a negative index instead of raising: the lookup must be bounded below"),
    G("C02", "frag::Fragment.cut", "ret", r"^self$", ["from_ == 0", "to == self.size"], "the whole-fragment shortcut is taken only for the whole range"),
    G("C02", "frag::Fragment.cut", "call", r"^result\.append\(child\)$", ["end > from_", "pos < to"], "exactly the children overlapping [from, to) are kept"),
    G("C02", "frag::Fragment.cut", "stmt", r"^child = child\.cut\(", [["pos < from_", "end > to"]], "only children crossing a range boundary are cut"),
    G("C02 C16", "frag::Fragment.append", "stmt", r"^content\[len\(content\) - 1\] = last\.with_text\(last\.text \+ first\.text\)$", ["pm_node.is_text(last)", "last.same_markup(first)"], "text at the seam is merged only for same-markup text nodes"),
    G("C02 C16", "frag::Fragment.append", "ret", r"^self$", ["not other.size"], "appending an empty fragment is the identity"),
    G("C02 C16", "frag::Fragment.append", "ret", r"^other$", ["not self.size", "other.size"], "appending to an empty fragment is the identity"),
    G("C02", "frag::Fragment.replace_child", "ret", r"^self$", ["current == node"], "replace_child is the identity only for the same child"),
    G("C09", "frag::Fragment.nodes_between", "expr", r"^f\(child, node_start \+ pos, parent, i\)$", ["end > from_", "pos < to"], "the callback sees exactly the children overlapping the range, at their absolute position"),
    # ------------------------------------------------ model/mark.py, schema.py (C14 C07 C15)
    G("C14", "mark::Mark.add_to_set", "ret", r"^set$", [["self.eq(other)", "other.type.excludes(self.type)"]], "the set is returned unchanged only if an equal mark is present or a present mark excludes the new one", min=2),
    G("C14", "mark::Mark.add_to_set", "call", r"^copy\.append\(other\)$", ["not self.type.excludes(other.type)", "not other.type.excludes(self.type)", "not self.eq(other)", "copy is not None"], "exactly the marks the new one does not exclude are kept"),
    G("C14", "mark::Mark.add_to_set", "stmt", r"^placed = True$", ["not placed", "other.type.rank > self.type.rank", "not self.type.excludes(other.type)"], "the new mark is inserted once, before the first kept mark of higher rank"),
    F("C14", "mark::Mark.add_to_set", "ret", r".", r"^(set|copy)$", "add_to_set returns the unchanged input or the single-pass copy (every element was examined)"),
    G("C14", "mark::Mark.add_to_set", "call", r"^copy\.append\(self\)$", ["not placed"], "the new mark is placed exactly once", min=2),
    F("C14", "mark::Mark.add_to_set", "call", r"^copy\.(extend|append|insert)\(", r"^copy\.append\((self|other)\)$", "every mark enters the result one at a time, after its own exclusion test (no bulk copy of unexamined marks)", min=3),
    G("C14 C11", "schema::NodeType.allowed_marks", "call", r"^copy\.append\(mark\)$", ["self.allows_mark_type(mark.type)", "copy is not None"], "exactly the allowed marks are kept, in order"),
    G("C14 C11", "schema::NodeType.allowed_marks", "stmt", r"^copy = marks\[0:i\]$", ["not self.allows_mark_type(mark.type)", "copy is None"], "the copy starts at the first disallowed mark"),
    G("C14 C07", "schema::NodeType.allows_marks", "ret", r"^True$", ["self.mark_set is None"], "all marks are allowed only when the node type declares no restriction"),
    F("C14 C07", "schema::NodeType.allows_marks", "ret", r"^all\(", r"^all\(\(self\.allows_mark_type\(mark\.type\) for mark in marks\)\)$", "a mark set is allowed iff every mark's type is allowed"),
    F("C14 C07", "schema::NodeType.allows_mark_type", "ret", r".", r"^self\.mark_set is None or mark_type in self\.mark_set$", "a mark type is allowed iff there is no restriction or it is listed"),
    G("C07", "schema::NodeType.valid_content", "ret", r"^True$", ["result", "result.valid_end"], "content is valid only if the whole child sequence ends in a valid end state"),
    G("C07", "schema::NodeType.valid_content", "ret", r"^False$", [["not result", "not result.valid_end", "not self.allows_marks(content.child(i).marks)"]], "content is refused only for a content or mark reason", min=2),
    G("C07", "schema::NodeType.create_checked", "ret", r"^Node\(", ["self.valid_content(content)"], "the checked constructor builds a node only from valid content"),
    G("C14", "schema::Schema.__init__", "stmt", r"^type\.mark_set = gather_marks\(", ["mark_expr", "mark_expr != '_'"], "an explicit marks expression is resolved through gather_marks"),
    G("C14", "schema::Schema.__init__", "stmt", r"^type\.mark_set = \[\]$", [["mark_expr == ''", "not type.inline_content"]], "no marks are allowed for an empty marks expression or block content"),
    G("C14", "schema::Schema.__init__", "expr", r"^\[mark\]$", ["excl is None"], "a mark excludes itself by default", exact=True),
    G("C14", "schema::Schema.__init__", "expr", r"^gather_marks\(self, excl\.split\(' '\)\)$", ["excl is not None", "excl != ''"], "an explicit excludes declaration is resolved through gather_marks"),
    G("C14", "schema::gather_marks", "call", r"^found\.append\(mark\)$", [["mark", "name == '_'", "mark.spec.get('group')"]], "a name selects the mark of that name, all marks for '_', or the marks of that group", min=2),
    # ------------------------------------------------ model/content.py (C06 C15)
    Pass(("C06",), "prosemirror/model/content.py::ContentMatch.parse", "ret", r"^match$", r"check_for_dead_ends\(match, stream\)", "every compiled matcher is checked for dead ends before it is returned"),
    G("C06", "content::ContentMatch.parse", "call", r"^stream\.err\('Unexpected trailing text'\)$", ["stream.next() is not None"], "trailing text after a complete expression is rejected"),
    F("C06", "content::ContentMatch.parse", "stmt", r"^match = ", r"^match = dfa\(nfa\(expr\)\)$", "the matcher is the subset construction of the NFA of the parsed expression"),
    G("C06", "content::parse_expr_atom.iteratee", "call", r"^stream\.err\('Mixing inline and block content'\)$", ["stream.inline is not None", "stream.inline != type.is_inline"], "mixing inline and block content is rejected"),
    G("C06", "content::resolve_name", "call", r"^result\.append\(type\)$", ["name in type.groups"], "a group name selects exactly the node types whose (split) group list contains it"),
    G("C06", "content::resolve_name", "call", r"^stream\.err\(", ["not result"], "an unknown name is rejected"),
    G("C06 C15", "content::check_for_dead_ends", "stmt", r"^dead = False$", ["dead", "not (node.is_text or node.has_required_attrs())"], "a state is alive only if it is a valid end or a generatable node leaves it"),
    G("C06 C15", "content::check_for_dead_ends", "call", r"^stream\.err\(", ["dead"], "a required position that only non-generatable nodes can fill is rejected"),
    M("C06", "content::nfa.compile", ["expr['type'] == 'star'"], r"^loop = node\(\)$", "a star gets its own loop state (the repeated body must not loop on a state shared with alternatives)"),
    M("C06", "content::nfa.compile", ["expr['type'] == 'star'"], r"^edge\(from_, loop\)$", "the star's loop state is entered by an epsilon edge from the start"),
    M("C06", "content::nfa.compile", ["expr['type'] == 'plus'"], r"^loop = node\(\)$", "a plus gets its own loop state"),
    G("C15", "content::ContentMatch.fill_before.search", "stmt", r"^found = search\(", ["not (type.is_text or type.has_required_attrs())", "next not in seen"], "only generatable node types are ever added to a filling, and no state is searched twice"),
    F("C15", "content::ContentMatch.fill_before.search", "arg:1", r"^search\(next, ", r"^\[\*types, type\]$", "each search branch extends its own copy of the chosen types (a failed branch leaves nothing behind)"),
    G("C15", "content::ContentMatch.fill_before.search", "ret", r"^Fragment\.from_\(", ["finished", ["not to_end", "finished.valid_end"]], "a filling is returned only if the following content then matches (up to a valid end when asked)"),
    G("C15", "content::ContentMatch.compute_wrapping", "call", r"^active\.append\(", ["not type.is_leaf", "not type.has_required_attrs()", "type.name not in seen", ["not current['type']", "match.next[i].next.valid_end"]], "a wrapper candidate is generatable, not a leaf, new, and may hold the next wrapper as its only child"),
    G("C15", "content::ContentMatch.compute_wrapping", "stmt", r"^seen\[type\.name\] = True$", ["not type.is_leaf", "not type.has_required_attrs()", "type.name not in seen", ["not current['type']", "match.next[i].next.valid_end"]], "a type is marked seen only when it is actually enqueued (marking it on a rejected edge hides a later valid chain)"),
    G("C15", "content::ContentMatch.compute_wrapping", "ret", r"^list\(reversed\(result\)\)$", ["match.match_type(target)"], "a chain is returned only if its innermost wrapper accepts the target as first child"),
    F("C15", "content::ContentMatch.compute_wrapping", "stmt", r"^current = ", r"^current = active\.pop\(0\)$", "breadth-first order (pop from the front) yields a shortest chain"),
    G("C15", "content::ContentMatch.default_type", "ret", r"^type$", ["not (type.is_text or type.has_required_attrs())"], "the default type is generatable"),
    G("C15", "content::ContentMatch.find_wrapping", "ret", r"^entry\.computed$", ["entry.target.name == target.name"], "a cached wrapping is reused only for the same target type"),
    G("C15", "schema::NodeType.create_and_fill", "ret", r"^Node\(", ["after", "matched"], "create_and_fill builds a node only when the content matched and a closing fill exists"),
    # ------------------------------------------------ model/diff.py (C20)
    G("C20", "diff::find_diff_start", "stmt", r"^continue$", ["child_a == child_b"], "only identical children are skipped without comparison"),
    G("C20", "diff::find_diff_start", "ret", r"^pos$", ["not child_a.same_markup(child_b)"], "a markup difference is reported at the child's start"),
    G("C20", "diff::find_diff_start", "stmt", r"^inner = find_diff_start\(", [["child_a.content.size", "child_b.content.size"]], "descent happens whenever either child has content", forbid=("child_a.content.size", "child_b.content.size")),
    G("C20", "diff::find_diff_end", "stmt", r"^inner = find_diff_end\(", [["child_a.content.size", "child_b.content.size"]], "descent happens whenever either child has content", forbid=("child_a.content.size", "child_b.content.size")),
    G("C20", "diff::find_diff_end", "stmt", r"^continue$", ["child_a == child_b"], "only identical children are skipped without comparison"),
    G("C20", "diff::find_diff_start", "ret", r"^None if a\.child_count == b\.child_count else pos$", [["a.child_count == i", "b.child_count == i"]], "the scan ends (equal iff both are exhausted together) only when one fragment is exhausted"),
    # ------------------------------------------------ model/from_dom.py (C19)
    G("C19", "fdom::NodeContext.apply_pending", "stmt", r"^self\.active_marks = mark\.add_to_set\(self\.active_marks\)$", [["self.type is None", "self.type.allows_mark_type(mark.type)"], "not mark.is_in_set(self.active_marks)"], "a pending mark is activated in a typed context only if that node type allows it"),
    G("C19", "fdom::ParseContext.insert_node", "stmt", r"^marks = mark\.add_to_set\(marks\)$", [["top.type is None", "top.type.allows_mark_type(mark.type)"]], "a node's own marks are kept only where the open node type allows them"),
    G("C19", "fdom::ParseContext.remove_pending_mark", "stmt", r"^level\.active_marks = stash_mark\.add_to_set\(level\.active_marks\)$", ["stash_mark is not None", "level.type is not None", "level.type.allows_mark_type(stash_mark.type)"], "a stashed duplicate mark is re-activated only where the node type allows it"),
    G("C19", "fdom::NodeContext.finish", "stmt", r"^content = content\.append\(", ["not open_end", "self.match is not None"], "every closed context is filled up to a valid end"),
    G("C19", "fdom::ParseContext.insert_node", "call", r"^top\.content\.append\(node\.mark\(marks\)\)$", ["self.find_place(node)"], "every node the parser emits was placed through find_place"),
    # ------------------------------------------------ JSON (C05)
    G("C05", "repl::Slice.to_json", "stmt", r"^json = \{\*\*json, 'openStart': self\.open_start\}$", ["self.open_start > 0", "self.content.size"], "openStart is written exactly when it differs from the reader's default 0", exact=True),
    G("C05", "repl::Slice.to_json", "stmt", r"^json = \{\*\*json, 'openEnd': self\.open_end\}$", ["self.open_end > 0", "self.content.size"], "openEnd is written exactly when it differs from the reader's default 0", exact=True),
    G("C05", "rstep::ReplaceStep.to_json", "stmt", r"^json_data = \{\*\*json_data, 'structure': True\}$", ["self.structure"], "the structure flag is written whenever it is set (the reader defaults it to False)", exact=True),
    G("C05", "rstep::ReplaceStep.to_json", "stmt", r"^json_data = \{\*\*json_data, 'slice': self\.slice\.to_json\(\)\}$", ["self.slice.size"], "the slice is written whenever it is non-empty (the reader defaults to Slice.empty)", exact=True),
    G("C05", "rstep::ReplaceAroundStep.to_json", "stmt", r"^json_data = \{\*\*json_data, 'structure': True\}$", ["self.structure"], "the structure flag is written whenever it is set", exact=True),
    G("C05", "rstep::ReplaceAroundStep.to_json", "stmt", r"^json_data = \{\*\*json_data, 'slice': self\.slice\.to_json\(\)\}$", ["self.slice.size"], "the slice is written whenever it is non-empty", exact=True),

    F("C18 C12", "struct::lift_target", "stmt", r"^depth = ", r"^depth = range_\.depth$", "the outward search starts at the range's own depth, so the isolating flag of the range's parent is tested before the search leaves it"),
    F("C01 C03 C13", "astep::AttrStep.apply", "stmt", r"^updated = ", r"^updated = node\.type\.create\(attrs, None, node\.marks\)$", "the addressed node is rebuilt without content (its children are kept by the open slice; a filling constructor would add content the empty map does not report)"),
    F("C01 C03 C13", "mstep::AddNodeMarkStep.apply", "stmt", r"^updated = ", r"^updated = node\.type\.create\(node\.attrs, None, self\.mark\.add_to_set\(node\.marks\)\)$", "the addressed node is rebuilt without content and with the mark added through the set algebra"),
    F("C01 C03 C13", "mstep::RemoveNodeMarkStep.apply", "stmt", r"^updated = ", r"^updated = node\.type\.create\(node\.attrs, None, self\.mark\.remove_from_set\(node\.marks\)\)$", "the addressed node is rebuilt without content and with the mark removed"),
    F("C01 C03 C13", "astep::AttrStep.apply", "ret", r"^StepResult\.from_replace\(", r"^StepResult\.from_replace\(doc, self\.pos, self\.pos \+ 1, Slice\(Fragment\.from_\(updated\), 0, 0 if node\.is_leaf else 1\)\)$", "a node-level step replaces exactly the node's opening token (pos..pos+1) by an equally sized opening"),
    F("C01 C03 C13", "mstep::AddNodeMarkStep.apply", "ret", r"^StepResult\.from_replace\(", r"^StepResult\.from_replace\(doc, self\.pos, self\.pos \+ 1, Slice\(Fragment\.from_\(updated\), 0, 0 if node\.is_leaf else 1\)\)$", "a node-level step replaces exactly the node's opening token (pos..pos+1) by an equally sized opening"),
    F("C01 C03 C13", "mstep::RemoveNodeMarkStep.apply", "ret", r"^StepResult\.from_replace\(", r"^StepResult\.from_replace\(doc, self\.pos, self\.pos \+ 1, Slice\(Fragment\.from_\(updated\), 0, 0 if node\.is_leaf else 1\)\)$", "a node-level step replaces exactly the node's opening token (pos..pos+1) by an equally sized opening"),

    F("C11", "trepl::close_node_start", "arg:2", r"^close_node_start\(", r"^open_end - 1 if frag\.child_count == 1 else 0$", "below the first child the end stays open only when that child is also the last child (it lies on the slice's open end spine); otherwise the child is closed and filled to a valid end"),
    G("C11", "trepl::close_node_start", "stmt", r"^frag = frag\.append\(fill_before_frag\)$", ["open_end <= 0", "open_start > 0"], "a node that is not on the open end spine is filled up to a valid end"),
    G("C11", "trepl::Fitter.close_frontier_node", "stmt", r"^self\.placed = add_to_fragment\(", ["add", "add.child_count"], "closing a frontier node appends the fill its match state requires"),
    F("C11", "trepl::Fitter.close_frontier_node", "stmt", r"^add = ", r"^add = open_\.match\.fill_before\(Fragment\.empty, True\)$", "a frontier node is closed by filling from its own match state to a valid end"),
    F("C11", "trepl::content_after_fits", "ret", r"^fit if", r"^fit if fit and \(?not invalid_marks\(type_, node\.content, index\)\)? else None$", "content after the range is kept only if it fits the frontier match and its marks are allowed there"),
    G("C11", "trepl::content_after_fits", "ret", r"^None$", ["index == node.child_count", "not type_.compatible_content(node.type)"], "an empty tail is refused only for incompatible node types"),
    G("C11", "trepl::invalid_marks", "ret", r"^True$", ["not type_.allows_marks(fragment.child(i).marks)"], "marks are invalid only when the frontier type disallows them"),
    G("C11", "trepl::fits_trivially", "ret", r"^from__\.parent\.can_replace\(from__\.index\(\), to_\.index\(\), slice\.content\)$", ["not slice.open_start", "not slice.open_end", "from__.start() == to_.start()"], "the trivial fit is tried only for a closed slice inside one parent"),
    G("C11", "trepl::replace_step", "ret", r"^ReplaceStep\(from_, to, slice\)$", ["fits_trivially(from__, to_, slice)"], "the direct step is emitted only when the slice fits as it is"),
]
