"""RU - string units.  Document positions count UTF-16 code units (POS);
`len`, str indices, `re` offsets count code points (CP).  Unit inference by
unification inside every function that handles TextNode.text; a clash of POS
and CP in one arithmetic/comparison/index is wrong for every text with a
non-BMP character before the offset."""

from __future__ import annotations

import ast

from ..core import Func, Program, Report, src

POS_PARAMS = {"from_", "to", "pos", "pos_a", "pos_b", "cur", "end", "start", "node_start", "start_pos"}
POS_ATTRS = {"node_size", "size", "pos", "parent_offset", "text_offset"}
TEXTNODE = "prosemirror.model.node.TextNode"


class UF:
    def __init__(self) -> None:
        self.parent: dict[str, str] = {}
        self.label: dict[str, tuple[str, str]] = {}  # root -> (unit, evidence)
        self.conflicts: list[tuple[ast.AST, str]] = []

    def find(self, x: str) -> str:
        self.parent.setdefault(x, x)
        while self.parent[x] != x:
            self.parent[x] = self.parent[self.parent[x]]
            x = self.parent[x]
        return x

    def set(self, x: str, unit: str, ev: str, site: ast.AST) -> None:
        r = self.find(x)
        if r in self.label and self.label[r][0] != unit:
            self.conflicts.append((site, f"{unit} ({ev}) meets {self.label[r][0]} ({self.label[r][1]})"))
        elif r not in self.label:
            self.label[r] = (unit, ev)

    def union(self, a: str, b: str, site: ast.AST) -> None:
        ra, rb = self.find(a), self.find(b)
        if ra == rb:
            return
        la, lb = self.label.get(ra), self.label.get(rb)
        if la and lb and la[0] != lb[0]:
            self.conflicts.append((site, f"{la[0]} ({la[1]}) meets {lb[0]} ({lb[1]})"))
            return
        self.parent[ra] = rb
        if la and not lb:
            self.label[rb] = la


class Handle:
    __slots__ = ("id", "dbl")

    def __init__(self, id_: str, dbl: bool = False) -> None:
        self.id = id_
        self.dbl = dbl


class UnitInference:
    def __init__(self, prog: Program, fn: Func) -> None:
        self.prog = prog
        self.fn = fn
        self.m = fn.module
        self.tm = prog.types
        self.uf = UF()
        self.kind: dict[str, str] = {}
        self.n = 0
        self.text_reads = 0
        self.constraints = 0
        self.misuse: list[tuple[ast.AST, str]] = []
        self.dblvars: set[str] = set()

    # ---------------------------------------------------------------- kinds
    def k(self, e: ast.AST | None) -> str | None:
        if e is None:
            return None
        if isinstance(e, ast.Attribute) and e.attr == "text":
            if self.tm.is_instance(self.m, e.value, TEXTNODE) or (self.tm.may_be(self.m, e.value, TEXTNODE) and not self.tm.may_be(self.m, e.value, "Any")):
                return "TEXT"
            return None
        if isinstance(e, ast.Name):
            return self.kind.get(e.id)
        if isinstance(e, ast.Subscript):
            kv = self.k(e.value)
            if kv in ("TEXT", "BYTES16") and isinstance(e.slice, ast.Slice):
                return kv
            return None
        if isinstance(e, ast.BinOp) and isinstance(e.op, ast.Add):
            if self.k(e.left) == "TEXT" or self.k(e.right) == "TEXT":
                return "TEXT"
        if isinstance(e, ast.Call):
            f = e.func
            if isinstance(f, ast.Attribute) and f.attr == "encode" and self.k(f.value) == "TEXT" and e.args and isinstance(e.args[0], ast.Constant) and str(e.args[0].value).lower().replace("_", "-") in ("utf-16-le", "utf-16le"):
                return "BYTES16"
            if isinstance(f, ast.Attribute) and f.attr == "decode" and self.k(f.value) == "BYTES16":
                return "TEXT"
            if isinstance(f, ast.Attribute) and f.attr in ("search", "match", "fullmatch"):
                if any(self.k(a) == "TEXT" for a in e.args):
                    return "MATCH"
            if isinstance(f, ast.Name) and f.id == "cast" and len(e.args) == 2:
                return self.k(e.args[1])
        if isinstance(e, ast.IfExp):
            return self.k(e.body) or self.k(e.orelse)
        return None

    def infer_kinds(self) -> None:
        for _ in range(4):
            for n in ast.walk(self.fn.node):
                if isinstance(n, (ast.For, ast.comprehension)):
                    self.bind_iter(n.target, n.iter)
                if isinstance(n, ast.Assign) and len(n.targets) == 1 and isinstance(n.targets[0], ast.Name):
                    kk = self.k(n.value)
                    if kk:
                        self.kind[n.targets[0].id] = kk
                elif isinstance(n, ast.NamedExpr) and isinstance(n.target, ast.Name):
                    kk = self.k(n.value)
                    if kk:
                        self.kind[n.target.id] = kk

    # ---------------------------------------------------------------- units
    def const(self, unit: str, ev: str, site: ast.AST) -> Handle:
        self.n += 1
        h = f"#{self.n}"
        self.uf.set(h, unit, ev, site)
        return Handle(h)

    def var(self, name: str) -> Handle:
        return Handle("v:" + name, name in self.dblvars)

    def is_dbl(self, e: ast.AST | None) -> bool:
        """Syntactic scale of an expression: a byte offset / byte length of a UTF-16 buffer
        (2 x position).  Used to give a local that holds such a value (`n = len(units)`) the
        scale of its defining expression."""
        if isinstance(e, ast.Name):
            return e.id in self.dblvars
        if isinstance(e, ast.Call) and isinstance(e.func, ast.Name):
            if e.func.id == "len" and len(e.args) == 1:
                return self.k(e.args[0]) == "BYTES16"
            if e.func.id in ("min", "max", "int", "abs") and e.args:
                return any(self.is_dbl(a) for a in e.args)
            return False
        if isinstance(e, ast.BinOp):
            if isinstance(e.op, (ast.Add, ast.Sub)):
                return self.is_dbl(e.left) or self.is_dbl(e.right)
            if isinstance(e.op, ast.Mult):
                return any(isinstance(a, ast.Constant) and a.value == 2 and not self.is_dbl(b) for a, b in ((e.left, e.right), (e.right, e.left)))
            return False
        if isinstance(e, ast.IfExp):
            return self.is_dbl(e.body) or self.is_dbl(e.orelse)
        if isinstance(e, ast.UnaryOp) and isinstance(e.op, (ast.USub, ast.UAdd)):
            return self.is_dbl(e.operand)
        return False

    def infer_scales(self) -> None:
        pairs: list[tuple[str, ast.AST]] = []
        for n in ast.walk(self.fn.node):
            if isinstance(n, ast.Assign):
                for t in n.targets:
                    if isinstance(t, ast.Name):
                        pairs.append((t.id, n.value))
                    elif isinstance(t, (ast.Tuple, ast.List)) and isinstance(n.value, (ast.Tuple, ast.List)) and len(t.elts) == len(n.value.elts):
                        pairs += [(a.id, b) for a, b in zip(t.elts, n.value.elts) if isinstance(a, ast.Name)]
            elif isinstance(n, ast.AnnAssign) and n.value is not None and isinstance(n.target, ast.Name):
                pairs.append((n.target.id, n.value))
            elif isinstance(n, ast.NamedExpr) and isinstance(n.target, ast.Name):
                pairs.append((n.target.id, n.value))
        changed = True
        while changed:
            changed = False
            for nm, val in pairs:
                if nm not in self.dblvars and self.is_dbl(val):
                    self.dblvars.add(nm)
                    changed = True

    def unify(self, a: Handle | None, b: Handle | None, site: ast.AST) -> Handle | None:
        if a is None:
            return b
        if b is None:
            return a
        self.constraints += 1
        if a.dbl != b.dbl:
            self.misuse.append((site, "a UTF-16 byte offset (2 x position) meets a plain count"))
            return a
        self.uf.union(a.id, b.id, site)
        return a

    def u(self, e: ast.AST | None) -> Handle | None:
        if e is None:
            return None
        if isinstance(e, ast.Constant):
            return None
        if isinstance(e, ast.Name):
            return self.var(e.id)
        if isinstance(e, ast.Attribute):
            if e.attr in POS_ATTRS:
                return self.const("POS", f"`{src(e)}` is a token position / size", e)
            return None
        if isinstance(e, ast.UnaryOp) and isinstance(e.op, (ast.USub, ast.UAdd)):
            return self.u(e.operand)
        if isinstance(e, ast.BinOp):
            if isinstance(e.op, (ast.Add, ast.Sub)):
                return self.unify(self.u(e.left), self.u(e.right), e)
            if isinstance(e.op, ast.Mult):
                for a, b in ((e.left, e.right), (e.right, e.left)):
                    if isinstance(a, ast.Constant) and a.value == 2:
                        h = self.u(b)
                        return Handle(h.id, True) if h is not None and not h.dbl else None
                return None
            if isinstance(e.op, ast.FloorDiv) and isinstance(e.right, ast.Constant) and e.right.value == 2:
                h = self.u(e.left)
                return Handle(h.id, False) if h is not None and h.dbl else None
            return None
        if isinstance(e, ast.IfExp):
            self.u(e.test)
            return self.unify(self.u(e.body), self.u(e.orelse), e)
        if isinstance(e, ast.Compare):
            hs = [self.u(e.left)] + [self.u(c) for c in e.comparators]
            ops_ok = all(isinstance(o, (ast.Lt, ast.LtE, ast.Gt, ast.GtE, ast.Eq, ast.NotEq)) for o in e.ops)
            if ops_ok:
                cur = hs[0]
                for h in hs[1:]:
                    cur = self.unify(cur, h, e) or cur
            return None
        if isinstance(e, ast.BoolOp):
            for v in e.values:
                self.u(v)
            return None
        if isinstance(e, ast.Subscript):
            kv = self.k(e.value)
            self.u(e.value)
            idx = e.slice
            parts = [idx.lower, idx.upper] if isinstance(idx, ast.Slice) else [idx]
            for p in parts:
                if p is None:
                    continue
                h = self.u(p)
                if kv == "TEXT":
                    if h is not None:
                        if h.dbl:
                            self.misuse.append((e, "a str is indexed with a byte offset"))
                        else:
                            self.uf.set(h.id, "CP", f"index of the str `{src(e.value)}` (Python str indices count code points)", e)
                            self.constraints += 1
                elif kv == "BYTES16":
                    if h is not None:
                        if h.dbl:
                            self.uf.set(h.id, "POS", f"half of a byte offset into the UTF-16 encoding `{src(e.value)[:40]}`", e)
                            self.constraints += 1
                        else:
                            self.misuse.append((e, f"the UTF-16 byte buffer is indexed with `{src(p)}`, which is not 2 x <position>"))
            return None
        if isinstance(e, ast.Call):
            f = e.func
            for a in e.args:
                if not isinstance(a, ast.GeneratorExp):
                    pass
            if isinstance(f, ast.Name):
                if f.id == "text_length":
                    for a in e.args:
                        self.u(a)
                    return self.const("POS", "`text_length(...)` counts UTF-16 units", e)
                if f.id == "len" and len(e.args) == 1:
                    kk = self.k(e.args[0])
                    self.u(e.args[0])
                    if kk == "TEXT":
                        return self.const("CP", f"`{src(e)}` counts code points", e)
                    if kk == "BYTES16":
                        h = self.const("POS", f"half of `{src(e)}` (bytes of the UTF-16 encoding)", e)
                        return Handle(h.id, True)
                    return None
                if f.id in ("min", "max"):
                    cur = None
                    for a in e.args:
                        cur = self.unify(cur, self.u(a), e) or cur
                    return cur
                if f.id in ("int", "cast", "abs") and e.args:
                    return self.u(e.args[-1])
                if f.id == "next" and e.args and isinstance(e.args[0], ast.GeneratorExp):
                    g = e.args[0]
                    self.gen_targets(g)
                    return self.u(g.elt)
            if isinstance(f, ast.Attribute):
                recv_k = self.k(f.value)
                if recv_k == "MATCH" and f.attr in ("start", "end"):
                    return self.const("CP", f"`{src(e)}` is a regex offset (code points)", e)
                if recv_k == "TEXT" and f.attr in ("find", "index", "rfind", "rindex"):
                    return self.const("CP", f"`{src(e)}` is a str offset (code points)", e)
                self.u(f.value)
            for a in e.args:
                self.u(a)
            for kw in e.keywords:
                self.u(kw.value)
            return None
        if isinstance(e, (ast.Tuple, ast.List)):
            for x in e.elts:
                self.u(x)
            return None
        if isinstance(e, (ast.GeneratorExp, ast.ListComp, ast.SetComp)):
            self.gen_targets(e)
            self.u(e.elt)
            return None
        if isinstance(e, ast.NamedExpr):
            h = self.u(e.value)
            if isinstance(e.target, ast.Name):
                return self.unify(self.var(e.target.id), h, e)
            return h
        return None

    def gen_targets(self, g: ast.AST) -> None:
        for c in g.generators:  # type: ignore[attr-defined]
            self.bind_iter(c.target, c.iter)
            for i in c.ifs:
                self.u(i)

    def bind_iter(self, target: ast.AST, it: ast.AST) -> None:
        if isinstance(it, ast.Call) and isinstance(it.func, ast.Attribute) and it.func.attr == "finditer" and isinstance(target, ast.Name):
            if any(self.k(a) == "TEXT" for a in it.args):
                self.kind[target.id] = "MATCH"
        if isinstance(it, ast.Call) and isinstance(it.func, ast.Name):
            if it.func.id == "enumerate" and it.args and self.k(it.args[0]) == "TEXT" and isinstance(target, ast.Tuple) and target.elts and isinstance(target.elts[0], ast.Name):
                self.uf.set("v:" + target.elts[0].id, "CP", f"index of `enumerate({src(it.args[0])})` (code points)", it)
                self.constraints += 1
            elif it.func.id == "zip" and isinstance(target, ast.Tuple):
                for t, a in zip(target.elts, it.args):
                    self.bind_iter(t, a)
            elif it.func.id == "range":
                hs = [self.u(a) for a in it.args]
                if isinstance(target, ast.Name):
                    for h in hs:
                        if h is not None:
                            self.unify(self.var(target.id), h, it)

    def run(self) -> None:
        self.infer_kinds()
        self.infer_scales()
        fn = self.fn.node
        for sub in ast.walk(fn):
            if isinstance(sub, (ast.FunctionDef, ast.AsyncFunctionDef)):
                for a in [*sub.args.posonlyargs, *sub.args.args, *sub.args.kwonlyargs]:
                    if a.arg in POS_PARAMS:
                        self.uf.set("v:" + a.arg, "POS", f"parameter `{a.arg}` is a document position", sub)
        for n in ast.walk(fn):
            if isinstance(n, ast.Attribute) and n.attr == "text" and self.k(n) == "TEXT":
                self.text_reads += 1
        # statements: generate constraints
        for n in ast.walk(fn):
            if isinstance(n, ast.Assign):
                h = self.u(n.value)
                for t in n.targets:
                    self.assign(t, n.value, h, n)
            elif isinstance(n, ast.AnnAssign) and n.value is not None:
                self.assign(n.target, n.value, self.u(n.value), n)
            elif isinstance(n, ast.AugAssign):
                h = self.u(n.value)
                if isinstance(n.target, ast.Name) and isinstance(n.op, (ast.Add, ast.Sub)):
                    self.unify(self.var(n.target.id), h, n)
            elif isinstance(n, (ast.If, ast.While, ast.Assert)):
                self.u(n.test)
            elif isinstance(n, ast.Expr):
                self.u(n.value)
            elif isinstance(n, ast.Return):
                self.u(n.value)
            elif isinstance(n, ast.For):
                self.bind_iter(n.target, n.iter)
                self.u(n.iter)

    def assign(self, t: ast.AST, value: ast.AST, h: Handle | None, site: ast.AST) -> None:
        if isinstance(t, ast.Name):
            self.unify(self.var(t.id), h, site)
        elif isinstance(t, (ast.Tuple, ast.List)) and isinstance(value, (ast.Tuple, ast.List)) and len(t.elts) == len(value.elts):
            for a, b in zip(t.elts, value.elts):
                self.assign(a, b, self.u(b), site)


def rule_ru(prog: Program, report: Report, files: tuple[str, ...] | None = None, min_funcs: int = 1) -> None:
    report.rules.append("RU")
    tm = prog.types
    nf = 0
    reads = 0
    ncons = 0
    for fn in prog.all_funcs():
        if fn.parent is not None:
            continue  # nested functions are analysed with their enclosing function
        if files is not None and fn.module.rel not in files:
            continue
        text = src(fn.node)
        if ".text" not in text and "text_length" not in text and "utf-16" not in text:
            continue
        inf = UnitInference(prog, fn)
        inf.run()
        if inf.text_reads == 0 and "text_length" not in text:
            continue
        nf += 1
        reads += inf.text_reads
        ncons += inf.constraints
        bad = inf.uf.conflicts + inf.misuse
        seen = set()
        for site, msg in bad:
            key = (getattr(site, "lineno", 0), msg.split(" (")[0])
            if key in seen:
                continue
            seen.add(key)
            report.violate(
                "RU",
                fn,
                site,
                f"unit clash in `{' '.join(src(site).split())[:80]}`",
                f"UTF-16 units and code points are mixed: {msg}. For text containing a character outside the BMP before this offset the two counts differ",
                what=f"{fn.qual}: positions (UTF-16 units) and code-point counts are never mixed",
            )
        if not bad:
            report.ob("RU", fn.key, f"{inf.text_reads} TextNode.text reads, {inf.constraints} unit constraints: no POS/CP clash")
    report.count("RU text-handling functions", nf)
    report.count("RU TextNode.text reads", reads)
    report.count("RU unit constraints", ncons)
    report.expect_at_least("RU", "text-handling functions", nf, min_funcs)
