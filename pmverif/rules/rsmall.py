"""Small repository-wide rules: RE (constant index into a may-be-empty
contract list), RX (search operations whose failure the author believed
in), RA (untyped value into a string sink / escaping), RD (discarded result
of a pure value-returning call), RM (token membership by substring)."""

from __future__ import annotations

import ast

from ..core import Program, Report, enclosing, parent_of, src, walk_own
from ..gates import holds, view
from .rl import compute_pure_names

EMPTY_OK_PRODUCERS = {"find_wrapping", "compute_wrapping"}  # [] is a meaningful answer ("fits without wrapper")


def rule_re(prog: Program, report: Report, files: tuple[str, ...] | None = None, min_reads: int = 3) -> None:
    report.rules.append("RE")
    n = 0
    for fn in prog.all_funcs():
        if files is not None and fn.module.rel not in files:
            continue
        locals_: dict[str, ast.Call] = {}
        for a in walk_own(fn.node):
            tgt = None
            if isinstance(a, ast.Assign) and len(a.targets) == 1 and isinstance(a.targets[0], ast.Name):
                tgt, val = a.targets[0].id, a.value
            elif isinstance(a, ast.NamedExpr) and isinstance(a.target, ast.Name):
                tgt, val = a.target.id, a.value
            else:
                continue
            if isinstance(val, ast.Call) and isinstance(val.func, ast.Attribute) and val.func.attr in EMPTY_OK_PRODUCERS:
                locals_[tgt] = val
        if not locals_:
            continue
        v = view(prog, fn.key)
        for s in walk_own(fn.node):
            if isinstance(s, ast.Subscript) and isinstance(s.value, ast.Name) and s.value.id in locals_ and isinstance(s.ctx, ast.Load):
                idx = s.slice
                const = isinstance(idx, ast.Constant) or (isinstance(idx, ast.UnaryOp) and isinstance(idx.operand, ast.Constant))
                if not const:
                    continue
                n += 1
                nm = s.value.id
                facts = v.guards(s, resolve=False)
                ok = any(holds(facts, alt) for alt in (f"len({nm}) > 0", f"len({nm})", nm, f"len({nm}) >= 1", f"len({nm}) != 0"))
                if ok:
                    report.ob("RE", fn.key, f"`{src(s)}` is guarded by a non-emptiness test of `{nm}` (result of {locals_[nm].func.attr})")  # type: ignore[union-attr]
                else:
                    report.violate("RE", fn, s, f"`{src(s)}` on a possibly empty wrapping", f"`{nm}` comes from `{src(locals_[nm])[:60]}`, for which [] means 'fits without a wrapper'; `{src(s)}` is not dominated by a non-emptiness test (an `is not None` test does not exclude [])", witness=[f"guards here: {sorted(facts)}"], what="constant index into a wrapping list is guarded by non-emptiness")
    report.count("RE constant-index reads of wrapping results", n)
    report.expect_at_least("RE", "constant-index reads of wrapping results", n, min_reads)
    # RE-truth: [] ("fits without a wrapper") must not be conflated with None ("no wrapping") by a truthiness test
    from .rt import truth_tests

    nt = 0
    for fn in prog.all_funcs():
        if files is not None and fn.module.rel not in files:
            continue
        produced: dict[str, ast.Call] = {}
        for a in walk_own(fn.node):
            if isinstance(a, ast.Assign) and len(a.targets) == 1 and isinstance(a.targets[0], ast.Name) and isinstance(a.value, ast.Call) and isinstance(a.value.func, ast.Attribute) and a.value.func.attr in EMPTY_OK_PRODUCERS:
                produced[a.targets[0].id] = a.value
            if isinstance(a, ast.NamedExpr) and isinstance(a.target, ast.Name) and isinstance(a.value, ast.Call) and isinstance(a.value.func, ast.Attribute) and a.value.func.attr in EMPTY_OK_PRODUCERS:
                produced[a.target.id] = a.value
        for atom, site in truth_tests(fn.node):
            hit = None
            if isinstance(atom, ast.Name) and atom.id in produced:
                hit = produced[atom.id]
            elif isinstance(atom, ast.NamedExpr) and isinstance(atom.target, ast.Name) and atom.target.id in produced:
                hit = produced[atom.target.id]
            elif isinstance(atom, ast.Call) and isinstance(atom.func, ast.Attribute) and atom.func.attr in EMPTY_OK_PRODUCERS:
                hit = atom
            if hit is None:
                continue
            nt += 1
            report.violate("RE", fn, atom, f"truthiness test of `{src(hit)[:60]}`", "find_wrapping returns [] when the node fits without a wrapper and None when no wrapping exists; a truthiness test treats the two alike (upstream: [] is truthy). In the fitter this rejects the direct fit, and a slice cut from inside an isolating node is then re-opened forever (non-termination)", what="wrapping results are tested with `is None` / `is not None`")
    report.ob("RE", "package", "no result of find_wrapping / compute_wrapping is tested by truthiness")
    report.count("RE truthiness tests of wrapping results", nt)


def _handler_names(t: ast.Try) -> set[str]:
    out: set[str] = set()
    for h in t.handlers:
        if h.type is None:
            out.add("*")
        else:
            for x in ast.walk(h.type):
                if isinstance(x, ast.Name):
                    out.add(x.id)
                elif isinstance(x, ast.Attribute):
                    out.add(x.attr)
    return out


def _enclosing_try_body(node: ast.AST) -> list[ast.Try]:
    out = []
    cur = node
    par = parent_of(cur)
    while par is not None and not isinstance(par, (ast.FunctionDef, ast.AsyncFunctionDef, ast.Lambda)):
        if isinstance(par, ast.Try) and cur in par.body:
            out.append(par)
        cur, par = par, parent_of(par)
    return out


def rule_rx(prog: Program, report: Report, files: tuple[str, ...] | None = None) -> None:
    report.rules.append("RX")
    nexts = 0
    tries = 0
    for fn in prog.all_funcs():
        if files is not None and fn.module.rel not in files:
            continue
        for n in walk_own(fn.node):
            if isinstance(n, ast.Call) and isinstance(n.func, ast.Name) and n.func.id == "next" and not n.keywords:
                nexts += 1
                if len(n.args) >= 2:
                    report.ob("RX", fn.key, f"`{src(n)[:60]}` has a default")
                    continue
                caught = any({"StopIteration", "Exception", "BaseException", "*"} & _handler_names(t) for t in _enclosing_try_body(n))
                if caught:
                    report.ob("RX", fn.key, f"`{src(n)[:60]}` is inside a try that catches StopIteration")
                else:
                    report.violate("RX", fn, n, f"one-argument `{src(n)[:60]}`", "next() without a default raises StopIteration on an empty iterable (upstream's firstChild is null); the exception escapes to the caller", what="next() has a default or a StopIteration handler")
            if isinstance(n, ast.Try):
                names = _handler_names(n)
                body_nodes = [x for s in n.body for x in ast.walk(s)]
                has_index_call = any(isinstance(x, ast.Call) and isinstance(x.func, ast.Attribute) and x.func.attr == "index" for x in body_nodes)
                has_subscript = any(isinstance(x, ast.Subscript) and isinstance(x.ctx, ast.Load) for x in body_nodes)
                if has_index_call or has_subscript:
                    tries += 1
                if has_index_call and not has_subscript and "IndexError" in names and not ({"ValueError", "Exception", "*"} & names):
                    report.violate("RX", fn, n, "`.index()` guarded by `except IndexError`", "list.index/str.index raise ValueError when the element is absent, never IndexError: the handler is dead and the lookup failure escapes", what="handler type matches the search operation")
                elif has_subscript and not has_index_call and "ValueError" in names and not ({"IndexError", "LookupError", "KeyError", "Exception", "*"} & names):
                    # only a violation when the body cannot raise ValueError otherwise: body is a bare subscript
                    if all(isinstance(s, (ast.Expr, ast.Assign, ast.Return)) for s in n.body) and not any(isinstance(x, ast.Call) for x in body_nodes):
                        report.violate("RX", fn, n, "subscript guarded by `except ValueError`", "a subscript raises IndexError/KeyError, not ValueError", what="handler type matches the search operation")
                    else:
                        report.ob("RX", fn.key, f"try at line {n.lineno}: handler {sorted(names)} plausible for its body")
                elif has_index_call or has_subscript:
                    report.ob("RX", fn.key, f"try at line {n.lineno}: handler {sorted(names)} matches the search operation in its body")
    report.count("RX next() calls", nexts)
    report.count("RX search try-blocks", tries)


def rule_ra(prog: Program, report: Report) -> None:
    """to_dom.py: no Any-typed value stored into a dict[str, str]; every
    attribute value and text child is escaped with quote escaping on."""
    report.rules.append("RA")
    tm = prog.types
    rel = "prosemirror/model/to_dom.py"
    m = prog.module(rel)
    stores = 0
    escapes = 0
    for fn in prog.all_funcs():
        if fn.module.rel != rel:
            continue
        for n in walk_own(fn.node):
            if isinstance(n, ast.Assign) and len(n.targets) == 1 and isinstance(n.targets[0], ast.Subscript):
                tgt = n.targets[0]
                names = tm.text(m, tgt.value)
                if names.replace("builtins.", "") == "dict[str, str]":
                    stores += 1
                    if tm.is_any(m, n.value):
                        report.violate("RA", fn, n, f"untyped value stored into `{src(tgt.value)}`", f"`{src(n)}`: the container is declared dict[str, str] but the value is `Any` (an output-spec attribute may be any JSON scalar); html.escape later fails on a non-str - coerce with str()", what="values stored into dict[str,str] are str")
                    else:
                        report.ob("RA", fn.key, f"`{src(n)}` stores a `{tm.text(m, n.value)}`")
            if isinstance(n, ast.Call) and src(n.func) == "html.escape":
                escapes += 1
                off = any(k.arg == "quote" and not (isinstance(k.value, ast.Constant) and k.value.value is True) for k in n.keywords) or (len(n.args) > 1 and not (isinstance(n.args[1], ast.Constant) and n.args[1].value is True))
                if off:
                    report.violate("RA", fn, n, f"`{src(n)}` disables quote escaping", "attribute values are written inside double quotes; without quote escaping a value containing `\"` terminates the attribute (markup injection, round trip broken)", what="html.escape keeps quote escaping on")
                else:
                    report.ob("RA", fn.key, f"`{src(n)}` escapes &, <, > and quotes")
    # Element.__str__ must escape every attribute value
    f = prog.func(f"{rel}::Element.__str__")
    fmt = [n for n in walk_own(f.node) if isinstance(n, ast.JoinedStr)]
    attr_fmt = [j for j in fmt if any(isinstance(x, ast.FormattedValue) and "html.escape" in src(x.value) for x in j.values)]
    uses_attrs = any(isinstance(n, ast.Attribute) and n.attr == "attrs" for n in walk_own(f.node))
    if uses_attrs and not attr_fmt:
        report.violate("RA", f, f.node, "attribute values rendered without html.escape", "Element.__str__ formats self.attrs but no formatted value passes through html.escape", what="attribute values are escaped")
    else:
        report.ob("RA", f.key, "attribute values are formatted through html.escape")
    # text children: render_spec's str branch
    rs_ = prog.func(f"{rel}::DOMSerializer.render_spec")
    v = view(prog, rs_.key)
    rets = [n for n in walk_own(rs_.node) if isinstance(n, ast.Return) and "isinstance(structure, str)" in " ".join(sorted(v.guards(n, resolve=False)))]
    ok = any("html.escape(structure)" in src(r) for r in rets)
    if not ok:
        report.violate("RA", rs_, rs_.node, "text rendered without html.escape", "render_spec must return html.escape(structure) for a str spec (text nodes)", what="text is escaped")
    else:
        report.ob("RA", rs_.key, "a str output spec is returned through html.escape")
    report.count("RA dict[str,str] stores", stores)
    report.count("RA html.escape calls", escapes)
    report.expect_at_least("RA", "dict[str,str] stores", stores, 1)
    report.expect_at_least("RA", "html.escape calls", escapes, 2)


def rule_rd(prog: Program, report: Report) -> None:
    """An expression statement that calls a pure, value-returning function of
    the package discards the only effect the call has (immutable API:
    `frag.replace_child(...)` returns the new fragment)."""
    from ..callgraph import callgraph
    from .rl import compute_pure

    report.rules.append("RD")
    tm = prog.types
    pure_keys, _names = compute_pure(prog)
    cg = callgraph(prog)
    n = 0
    stmts = 0
    for fn in prog.all_funcs():
        for s in walk_own(fn.node):
            if isinstance(s, ast.Expr) and isinstance(s.value, ast.Call):
                c = s.value
                stmts += 1
                callees = cg.resolve_call(fn, c)
                if not callees or not all(g.key in pure_keys for g in callees):
                    continue
                if any(g.name == "__init__" for g in callees):
                    continue
                names = tm.instance_names(fn.module, c)
                if not names or names == ["None"] or "Any" in names:
                    continue
                if tm.is_noreturn(fn.module, c):
                    continue
                n += 1
                report.violate("RD", fn, s, f"result of `{' '.join(src(c).split())[:80]}` discarded", f"`{callees[0].qual}` is side-effect free and returns a new `{'|'.join(x.rsplit('.', 1)[-1] for x in names)}`; as a statement the call does nothing (values are immutable - the result must be used)", what="results of pure value-returning calls are used")
    report.ob("RD", "package", f"none of the {stmts} call statements discards the result of a pure value-returning package function ({len(pure_keys)} pure functions)")
    report.count("RD call statements", stmts)
    report.count("RD discarded pure results", n)


def rule_rm(prog: Program, report: Report) -> None:
    """`x in s` with s: str and x not a literal is a substring test; group /
    name vocabularies are space-separated token lists and must be split."""
    report.rules.append("RM")
    tm = prog.types
    n = 0
    lit = 0
    for fn in prog.all_funcs():
        for c in walk_own(fn.node):
            if isinstance(c, ast.Compare) and len(c.ops) == 1 and isinstance(c.ops[0], (ast.In, ast.NotIn)):
                right = c.comparators[0]
                names = tm.instance_names(fn.module, right)
                if names == ["builtins.str"]:
                    if isinstance(c.left, ast.Constant):
                        lit += 1
                        continue
                    n += 1
                    report.violate("RM", fn, c, f"substring test `{src(c)[:80]}`", f"`{src(right)[:50]}` is a str, so `in` tests for a substring: a name that is a fragment of another token ('block' in 'topblock') matches; token vocabularies (groups, mark names) must be split into a list first", what="membership in a token vocabulary is tested on a split list")
    report.ob("RM", "package", f"no variable-in-str substring test ({lit} literal-in-str tests are character/separator probes)")
    report.count("RM literal-in-str probes", lit)


def rule_rw(prog: Program, report: Report) -> None:
    """HTML whitespace is [ \\t\\r\\n\\f]; Python's str.strip family and `\\s` also
    eat NBSP, EM SPACE ... which are content.  In the functions that edit text
    content (NodeContext.finish, ParseContext.add_text_node) only the explicit
    HTML class may be used."""
    report.rules.append("RW")
    keys = ["prosemirror/model/from_dom.py::NodeContext.finish", "prosemirror/model/from_dom.py::ParseContext.add_text_node", "prosemirror/model/from_dom.py::DOMParser.parse"]
    n = 0
    for k in keys:
        fn = prog.func(k)
        for c in walk_own(fn.node):
            if isinstance(c, ast.Call) and isinstance(c.func, ast.Attribute) and c.func.attr in ("strip", "rstrip", "lstrip") and not c.args:
                n += 1
                report.violate("RW", fn, c, f"`{src(c)[:60]}` strips Unicode whitespace", "str.strip/rstrip/lstrip without an argument also remove NBSP, EM SPACE, IDEOGRAPHIC SPACE ...; HTML collapsible whitespace is only [ \\t\\r\\n\\f], so document text loses characters on import (in DOMParser.parse the test `x.strip()` also drops every whitespace-only text between two inline elements before add_text_node - which knows when whitespace is significant - ever sees it: the space between differently marked words is lost)", what="text content is trimmed with the HTML whitespace class only")
            if isinstance(c, ast.Constant) and isinstance(c.value, str) and "\\s" in c.value and isinstance(parent_of(c), ast.Call):
                n += 1
                report.violate("RW", fn, c, f"regex `{c.value}` uses \\s", "\\s matches Unicode whitespace; HTML collapsible whitespace is only [ \\t\\r\\n\\f]", what="text content is matched with the HTML whitespace class only")
        pats = [c.value for c in walk_own(fn.node) if isinstance(c, ast.Constant) and isinstance(c.value, str) and "\\t\\r\\n" in c.value.encode("unicode_escape").decode()]
        report.ob("RW", k, f"whitespace is handled with explicit HTML classes ({len(pats)} patterns), no str.strip / \\s")
    report.count("RW offending whitespace operations", n)


def rule_rz(prog: Program, report: Report, armed: tuple[str, ...] = ("prosemirror/model/diff.py",)) -> None:
    """A slice bound that is the negation of a variable expression (`x[a:-e]`)
    is wrong when e == 0: `-0` is 0, so the slice is empty instead of reaching
    the end."""
    report.rules.append("RZ")
    n = 0
    for fn in prog.all_funcs():
        for s_ in walk_own(fn.node):
            if isinstance(s_, ast.Subscript) and isinstance(s_.slice, ast.Slice):
                for b in (s_.slice.lower, s_.slice.upper):
                    if b is None:
                        continue
                    neg = isinstance(b, ast.UnaryOp) and isinstance(b.op, ast.USub) and not isinstance(b.operand, ast.Constant)
                    neg = neg or (isinstance(b, ast.BinOp) and isinstance(b.op, (ast.Mult, ast.Sub)) and isinstance(b.left, ast.UnaryOp) and isinstance(b.left.op, ast.USub) and b is s_.slice.upper and not any(isinstance(x, ast.Constant) and isinstance(x.value, int) and x.value > 0 and isinstance(b.op, ast.Sub) for x in [b.right]))
                    if not neg:
                        continue
                    if fn.module.rel in armed:
                        n += 1
                        report.violate("RZ", fn, s_, f"`{src(s_)[:70]}` has a negated variable bound", "when the negated expression is 0 the bound is 0, not 'the end': the slice is empty (the `-0` pitfall); index from the length instead", what="no negated-variable slice bound")
                    else:
                        report.xref.setdefault("RZ negated-variable slice bounds outside the armed files", []).append(f"{fn.key}: {src(s_)[:60]}")
    report.ob("RZ", ",".join(armed), "no slice bound is a negated variable expression")
    report.count("RZ negated-variable slice bounds (armed files)", n)
