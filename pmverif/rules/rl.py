"""RL - loop progress: a `while` cycle path that changes nothing its own
conditions depend on is taken forever once entered (P4: `continue` skipping
the increment of a translated `for(;;i++)`)."""

from __future__ import annotations

import ast

from ..core import AnalysisError, Func, Program, Report, src, walk_own
from ..paths import Ev, Path, TooManyPaths, cond_paths, enum_paths

PURE_BUILTINS = {
    "len", "min", "max", "isinstance", "int", "str", "bool", "abs", "range", "enumerate", "zip", "cast", "getattr", "hasattr",
    "callable", "ord", "chr", "float", "tuple", "frozenset", "sorted", "reversed", "list", "dict", "set", "sum", "any", "all", "repr", "type", "id", "text_length",
}
# methods of builtin str/bytes/list/dict/re that do not mutate the receiver
PURE_EXTERNAL_METHODS = {
    "get", "startswith", "endswith", "encode", "decode", "lower", "upper", "strip", "split", "join", "find", "rfind", "index", "count", "copy", "keys",
    "values", "items", "start", "end", "span", "group", "search", "match", "fullmatch", "findall", "getparent", "getnext", "getprevious", "iterdescendants",
    "format", "replace", "isdigit",
}
MUTATORS = {"append", "extend", "insert", "pop", "remove", "sort", "reverse", "clear", "update", "setdefault", "popitem", "add", "discard", "appendleft", "popleft"}


_pure_cache: dict[int, tuple[set[str], set[str]]] = {}


def compute_pure(prog: Program) -> tuple[set[str], set[str]]:
    """(pure function keys, names all of whose definitions are pure).
    A function is pure when it has no attribute/subscript store or mutator call
    on anything but containers created in the same activation, no
    nonlocal/global write, and every callee (resolved through the call graph)
    is pure; calls that cannot be resolved must be whitelisted builtins."""
    if id(prog) in _pure_cache:
        return _pure_cache[id(prog)]
    from ..callgraph import callgraph

    cg = callgraph(prog)

    def local_impure(f: Func) -> bool:
        for n in walk_own(f.node):
            if isinstance(n, (ast.Nonlocal, ast.Global)):
                return True
            if isinstance(n, (ast.Assign, ast.AugAssign, ast.AnnAssign)):
                tg = n.targets if isinstance(n, ast.Assign) else [n.target]
                for t in tg:
                    for x in ast.walk(t):
                        if isinstance(x, (ast.Attribute, ast.Subscript)) and isinstance(x.ctx, ast.Store):
                            if f.name == "__init__":
                                continue  # construction
                            if isinstance(x, ast.Subscript) and isinstance(x.value, ast.Name) and _fresh_local(f.node, x.value.id):
                                continue
                            return True
            if isinstance(n, ast.Delete):
                return True
            if isinstance(n, ast.Call):
                if isinstance(n.func, ast.Attribute) and n.func.attr in MUTATORS:
                    recv = n.func.value
                    if isinstance(recv, ast.Name) and _fresh_local(f.node, recv.id):
                        continue
                    # a package class's own `append` (Fragment.append) is resolved below
                    if not cg.resolve_call(f, n):
                        return True
                cn = _callee_name(n)
                if cn is None:
                    return True
                if not cg.resolve_call(f, n):
                    ok = cn in PURE_BUILTINS or cn in PURE_EXTERNAL_METHODS or cn[:1].isupper() or cn in ("__class__", "super", "cls")
                    if not ok:
                        return True
        return False

    impure = {f.key for f in prog.funcs.values() if local_impure(f)}
    changed = True
    while changed:
        changed = False
        for f in prog.funcs.values():
            if f.key in impure:
                continue
            for n in walk_own(f.node):
                if isinstance(n, ast.Call) and any(g.key in impure for g in cg.resolve_call(f, n)):
                    impure.add(f.key)
                    changed = True
                    break
                if isinstance(n, ast.Attribute) and isinstance(n.ctx, ast.Load) and any(g.key in impure for g in cg.resolve_property(f, n)):
                    impure.add(f.key)
                    changed = True
                    break
    pure_keys = {k for k in prog.funcs if k not in impure}
    by_name: dict[str, list[Func]] = {}
    for f in prog.funcs.values():
        by_name.setdefault(f.name, []).append(f)
    pure_names = {n for n, fs in by_name.items() if all(f.key in pure_keys for f in fs)}
    _pure_cache[id(prog)] = (pure_keys, pure_names)
    return pure_keys, pure_names


def compute_pure_names(prog: Program) -> set[str]:
    return compute_pure(prog)[1]


def _is_fresh_expr(d: ast.AST) -> bool:
    if isinstance(d, (ast.List, ast.Dict, ast.Set, ast.ListComp, ast.DictComp, ast.SetComp)):
        return True
    if isinstance(d, ast.Subscript) and isinstance(d.slice, ast.Slice):
        return True
    if isinstance(d, ast.Call):
        if isinstance(d.func, ast.Attribute) and d.func.attr == "copy" and not d.args:
            return True
        if isinstance(d.func, ast.Name) and d.func.id in ("list", "dict", "set", "sorted"):
            return True
    if isinstance(d, ast.BinOp) and isinstance(d.op, ast.Add):
        return _is_fresh_expr(d.left) or _is_fresh_expr(d.right)
    return False


def _fresh_local(fn: ast.AST, name: str) -> bool:
    defs = []
    for n in walk_own(fn):
        if isinstance(n, ast.Assign) and any(isinstance(t, ast.Name) and t.id == name for t in n.targets):
            defs.append(n.value)
        elif isinstance(n, ast.AnnAssign) and isinstance(n.target, ast.Name) and n.target.id == name and n.value is not None:
            defs.append(n.value)
    a = getattr(fn, "args", None)
    if a is not None and name in {x.arg for x in [*a.posonlyargs, *a.args, *a.kwonlyargs]}:
        return False
    return bool(defs) and all(_is_fresh_expr(d) for d in defs)


def _callee_name(c: ast.Call) -> str | None:
    if isinstance(c.func, ast.Name):
        return c.func.id
    if isinstance(c.func, ast.Attribute):
        return c.func.attr
    return None


class PathState:
    def __init__(self, pure: set[str]) -> None:
        self.pure = pure
        self.dep: dict[str, set[str]] = {}
        self.opaque: set[str] = set()  # locals whose current value is opaque
        self.assigned: set[str] = set()
        self.selfdep: set[str] = set()
        self.mutated: set[str] = set()  # head names mutated in place / passed to impure calls
        self.cond_deps: set[str] = set()
        self.cond_opaque = False

    def deps_of(self, e: ast.AST | None) -> tuple[set[str], bool]:
        """head names the value of e depends on; whether it is opaque (impure call)."""
        if e is None:
            return set(), False
        out: set[str] = set()
        opaque = False
        for n in ast.walk(e):
            if isinstance(n, ast.Name) and isinstance(n.ctx, ast.Load):
                out |= self.dep.get(n.id, {n.id})
                if n.id in self.opaque:
                    opaque = True
            elif isinstance(n, ast.Call):
                if not self.is_pure_call(n):
                    opaque = True
            elif isinstance(n, (ast.Await, ast.Yield, ast.YieldFrom)):
                opaque = True
        return out, opaque

    def is_pure_call(self, c: ast.Call) -> bool:
        cn = _callee_name(c)
        if cn is None:
            return False
        if isinstance(c.func, ast.Name):
            return cn in PURE_BUILTINS or cn in self.pure or cn[:1].isupper()
        if cn in MUTATORS:
            # `x.append(..)` may be the builtin / lxml mutator whatever the package's own pure method of
            # that name (Fragment.append) is: without the receiver's type the name decides nothing
            return False
        return cn in self.pure or cn in PURE_EXTERNAL_METHODS

    def effects(self, e: ast.AST | None) -> None:
        """In-place effects of evaluating e: receivers/args of impure calls."""
        if e is None:
            return
        for n in ast.walk(e):
            if isinstance(n, ast.Call) and not self.is_pure_call(n):
                for part in [n.func, *n.args, *[k.value for k in n.keywords]]:
                    for x in ast.walk(part):
                        if isinstance(x, ast.Name):
                            self.mutated |= self.dep.get(x.id, {x.id})
            elif isinstance(n, ast.NamedExpr):
                self.assign(n.target, n.value)

    def assign(self, target: ast.AST, value: ast.AST | None, aug: bool = False) -> None:
        d, opq = self.deps_of(value)
        if isinstance(target, ast.Name):
            nm = target.id
            if aug or nm in d:
                self.selfdep.add(nm)
            self.assigned.add(nm)
            self.dep[nm] = d | ({nm} if aug else set())
            if opq:
                self.opaque.add(nm)
            else:
                self.opaque.discard(nm)
        elif isinstance(target, (ast.Tuple, ast.List)):
            if isinstance(value, (ast.Tuple, ast.List)) and len(value.elts) == len(target.elts):
                # parallel assignment: evaluate all values first
                vals = [self.deps_of(v) for v in value.elts]
                for t, v, (dd, oo) in zip(target.elts, value.elts, vals):
                    if isinstance(t, ast.Name):
                        if t.id in dd:
                            self.selfdep.add(t.id)
                        self.assigned.add(t.id)
                        self.dep[t.id] = dd
                        (self.opaque.add if oo else self.opaque.discard)(t.id)
                    else:
                        self.assign(t, v)
            else:
                for t in target.elts:
                    self.assign(t, value)
        elif isinstance(target, (ast.Attribute, ast.Subscript)):
            base = target
            while isinstance(base, (ast.Attribute, ast.Subscript)):
                base = base.value
            if isinstance(base, ast.Name):
                self.mutated |= self.dep.get(base.id, {base.id})
        elif isinstance(target, ast.Starred):
            self.assign(target.value, value)

    def run(self, ev: Ev) -> None:
        n = ev.node
        if ev.kind == "cond":
            e = n.target if isinstance(n, ast.NamedExpr) else n
            d, opq = self.deps_of(e)
            self.cond_deps |= d
            self.cond_opaque |= opq
            self.effects(n if not isinstance(n, ast.NamedExpr) else None)
        elif ev.kind == "assign":
            if isinstance(n, ast.NamedExpr):
                self.effects(n.value)
                self.assign(n.target, n.value)
            elif isinstance(n, ast.Assign):
                self.effects(n.value)
                for t in n.targets:
                    self.assign(t, n.value)
            elif isinstance(n, ast.AnnAssign):
                self.effects(n.value)
                self.assign(n.target, n.value)
        elif ev.kind == "aug":
            self.effects(n.value)
            self.assign(n.target, n.value, aug=True)
        elif ev.kind == "expr":
            self.effects(n)
        elif ev.kind in ("loop", "maybe"):
            # everything the inner loop / interrupted try body assigns becomes opaque;
            # its in-place effects count as mutations
            for x in ast.walk(n):
                if isinstance(x, ast.Name) and isinstance(x.ctx, ast.Store):
                    self.assigned.add(x.id)
                    self.opaque.add(x.id)
                    self.selfdep.add(x.id)
                    self.dep[x.id] = {x.id}
            body = n
            self.effects(body)
            for x in ast.walk(n):
                if isinstance(x, (ast.Attribute, ast.Subscript)) and isinstance(x.ctx, ast.Store):
                    base = x
                    while isinstance(base, (ast.Attribute, ast.Subscript)):
                        base = base.value
                    if isinstance(base, ast.Name):
                        self.mutated.add(base.id)
        elif ev.kind == "bind":
            self.assigned.add(n.name)
            self.dep[n.name] = set()

    def really_changed(self, v: str, seen: set[str] | None = None) -> bool:
        seen = seen or set()
        if v in seen:
            return False
        seen.add(v)
        if v in self.mutated:
            return True
        if v in self.assigned:
            if v in self.opaque or v in self.selfdep:
                return True
            return any(self.really_changed(d, seen) for d in self.dep.get(v, set()) if d != v)
        return False


def loop_cycle_paths(loop: ast.While) -> list[tuple[list[Ev], Path]]:
    out = []
    for tevs, res in cond_paths(loop.test):
        if not res:
            continue
        for p in enum_paths(loop.body):
            out.append((tevs, p))
    return out


def _nonlocal_names(fn: ast.AST) -> set[str]:
    out: set[str] = set()
    for n in walk_own(fn):
        if isinstance(n, (ast.Nonlocal, ast.Global)):
            out |= set(n.names)
    return out


def rule_rl(prog: Program, report: Report, files: tuple[str, ...] | None = None, min_loops: int = 1) -> None:
    report.rules.append("RL")
    pure = compute_pure_names(prog)
    loops = 0
    npaths = 0
    for fn in prog.all_funcs():
        if files is not None and fn.module.rel not in files:
            continue
        for loop in [n for n in walk_own(fn.node) if isinstance(n, ast.While)]:
            loops += 1
            try:
                cps = loop_cycle_paths(loop)
            except TooManyPaths:
                report.note(f"RL: {fn.key} line {loop.lineno}: loop body has more than 5000 paths - not enumerated")
                report.ob("RL", fn.key, f"while {src(loop.test)}: not enumerated (too many paths)", nontrivial=False)
                continue
            stuck = []
            for tevs, p in cps:
                if p.term not in ("fall", "continue"):
                    continue
                npaths += 1
                st = PathState(pure)
                for ev in tevs + p.events:
                    st.run(ev)
                if st.cond_opaque:
                    continue
                if any(st.really_changed(v) for v in st.cond_deps):
                    continue
                stuck.append((p, st))
            head = " ".join(src(loop.test).split())[:60]
            if stuck:
                p, st = stuck[0]
                conds = [("" if e.outcome else "not ") + "(" + " ".join(src(e.node).split())[:70] + ")" for e in p.events if e.kind == "cond"]
                report.violate(
                    "RL",
                    fn,
                    loop,
                    f"while {head}: stuck cycle path ending in `{p.term}`",
                    f"a cycle path of this loop changes none of the variables its conditions depend on ({', '.join(sorted(st.cond_deps)) or 'none'}), so once taken it is taken forever (non-termination)",
                    witness=["path conditions: " + " ; ".join(conds), f"path ends at line {getattr(p.term_node, 'lineno', loop.end_lineno)} with `{p.term}`", f"{len(stuck)} stuck path(s) of {len(cps)}"],
                    what=f"while {head}: every cycle path changes a variable its conditions depend on",
                )
            else:
                report.ob("RL", fn.key, f"while {head}: each of the {len([1 for _, p in cps if p.term in ('fall', 'continue')])} cycle paths changes a variable its conditions depend on (or evaluates an impure condition)")
    report.count("RL while loops", loops)
    report.count("RL cycle paths enumerated", npaths)
    report.expect_at_least("RL", "while loops", loops, min_loops)


# ------------------------------------------------------------------ ranking
def rule_rl_rank(prog: Program, report: Report, anchors: list[tuple[str, str]]) -> None:
    """Anchored loops additionally need a ranking argument: on every cycle path
    one integer variable moves by a constant of the same sign and an exit test
    reads it; or the loop's cursor descends structurally (`x = x.child(..)`,
    `.content`, `.first_child` ...)."""
    report.rules.append("RL-rank")
    for key, kind in anchors:
        fn = prog.func(key)
        loops = [n for n in walk_own(fn.node) if isinstance(n, ast.While)]
        if not loops:
            raise AnalysisError(f"RL-rank: no while loop left in {key} (anchor table needs maintenance)")
        loop = loops[0]
        cps = [(t, p) for t, p in loop_cycle_paths(loop) if p.term in ("fall", "continue")]
        if kind == "counter":
            common: dict[str, int] | None = None
            for tevs, p in cps:
                deltas: dict[str, int] = {}
                for ev in p.events:
                    n = ev.node
                    if ev.kind == "aug" and isinstance(n.target, ast.Name) and isinstance(n.op, (ast.Add, ast.Sub)) and isinstance(n.value, ast.Constant) and isinstance(n.value.value, int):
                        sgn = 1 if isinstance(n.op, ast.Add) else -1
                        deltas[n.target.id] = deltas.get(n.target.id, 0) + sgn * n.value.value
                    elif ev.kind in ("assign", "aug", "loop", "maybe"):
                        for x in ast.walk(n):
                            if isinstance(x, ast.Name) and isinstance(x.ctx, ast.Store) and not (ev.kind == "aug" and x is n.target):
                                deltas[x.id] = 0 if x.id not in deltas else 0
                                deltas[x.id] = 10**9  # non-constant change: disqualify
                signs = {k: (1 if v > 0 else -1) for k, v in deltas.items() if v not in (0, 10**9)}
                common = signs if common is None else {k: s for k, s in common.items() if signs.get(k) == s}
            exit_reads: set[str] = set()
            for tevs, p in loop_cycle_paths(loop) if not isinstance(loop.test, ast.Constant) else []:
                pass
            for n in ast.walk(loop):
                if isinstance(n, (ast.If, ast.While)):
                    for x in ast.walk(n.test):
                        if isinstance(x, ast.Name):
                            exit_reads.add(x.id)
            for n in ast.walk(loop):
                # a bounded container access (`.child(i)` / `S[i]`) also bounds the counter: it raises past the end
                if isinstance(n, ast.Call) and isinstance(n.func, ast.Attribute) and n.func.attr == "child":
                    exit_reads |= {x.id for a in n.args for x in ast.walk(a) if isinstance(x, ast.Name)}
                if isinstance(n, ast.Subscript):
                    exit_reads |= {x.id for x in ast.walk(n.slice) if isinstance(x, ast.Name)}
            ranked = sorted(k for k in (common or {}) if k in exit_reads)
            if not cps:
                raise AnalysisError(f"RL-rank: {key}: no cycle path found")
            if ranked:
                report.ob("RL-rank", key, f"ranking variable(s) {ranked}: constant same-sign step on all {len(cps)} cycle paths and read by an exit test")
            else:
                report.violate("RL-rank", fn, loop, f"while {src(loop.test)[:40]}: no ranking variable", "no integer variable moves by a constant of one sign on every cycle path of this loop while being read by an exit test: termination is not guaranteed", what="loop has a ranking variable")
        else:  # structural descent
            ok_all = True
            for tevs, p in cps:
                desc = False
                for ev in p.events:
                    n = ev.node
                    pairs = []
                    if ev.kind == "assign" and isinstance(n, ast.Assign) and len(n.targets) == 1 and isinstance(n.targets[0], ast.Name):
                        pairs.append((n.targets[0].id, n.value))
                    elif isinstance(n, ast.AST) and not isinstance(n, ast.stmt):
                        # `(node := node.child(i)).is_text` inside a test rebinds the cursor too
                        pairs += [(w.target.id, w.value) for w in ast.walk(n) if isinstance(w, ast.NamedExpr) and isinstance(w.target, ast.Name)]
                    for t, v in pairs:
                        root = v
                        steps = []
                        while isinstance(root, (ast.Attribute, ast.Call)):
                            if isinstance(root, ast.Call):
                                root = root.func
                            else:
                                steps.append(root.attr)
                                root = root.value
                        if isinstance(root, ast.Name) and (root.id == t or root.id in _aliases(p, t)) and any(s in ("child", "maybe_child", "content", "first_child", "last_child") for s in steps):
                            desc = True
                        if isinstance(v, ast.Name) and v.id in _desc_locals(p, t):
                            desc = True
                if not desc:
                    ok_all = False
            if ok_all and cps:
                report.ob("RL-rank", key, f"cursor descends into a child of itself on all {len(cps)} cycle paths (structural recursion on a finite tree)")
            elif not cps:
                raise AnalysisError(f"RL-rank: {key}: no cycle path found")
            else:
                report.violate("RL-rank", fn, loop, f"while {src(loop.test)[:40]}: cursor does not descend on every cycle path", "a cycle path of this tree walk does not move the cursor to a child of the current node", what="tree-walk cursor descends on every cycle path")


def _aliases(p: Path, t: str) -> set[str]:
    return set()


def _desc_locals(p: Path, t: str) -> set[str]:
    """locals on this path assigned from t.child(..)/t.maybe_child(..) etc."""
    out: set[str] = set()
    for ev in p.events:
        n = ev.node
        tgt = None
        if ev.kind == "assign" and isinstance(n, ast.Assign) and len(n.targets) == 1 and isinstance(n.targets[0], ast.Name):
            tgt, v = n.targets[0].id, n.value
        elif ev.kind == "assign" and isinstance(n, ast.NamedExpr) and isinstance(n.target, ast.Name):
            tgt, v = n.target.id, n.value  # `if not (child := node.maybe_child(i)):`
        if tgt is not None:
            steps = []
            root = v
            while isinstance(root, (ast.Attribute, ast.Call)):
                if isinstance(root, ast.Call):
                    root = root.func
                else:
                    steps.append(root.attr)
                    root = root.value
            if isinstance(root, ast.Name) and root.id == t and any(s in ("child", "maybe_child", "first_child", "last_child") for s in steps):
                out.add(tgt)
    return out
