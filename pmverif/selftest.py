"""Sensitivity self-test (thorough tier): every seeded change filed under
/verif/seeded that breaks the property is applied to a scratch copy of the
package (outside /repo and /verif, removed immediately) and the property's
check must fire on it; every behaviour-preserving twin under
/verif/selftest/twins must leave the check silent.  A self-test failure says
the checker is blunt or brittle (ANALYSIS-ERROR), not that the property is
violated."""

from __future__ import annotations

import json
import os
import shutil
import subprocess
import tempfile
from concurrent.futures import ThreadPoolExecutor

from .core import REPO, VERIF


def _run(patch: str, pid: str) -> tuple[str, int, str]:
    d = tempfile.mkdtemp(prefix="pmv_self_")
    try:
        shutil.copytree(os.path.join(REPO, "prosemirror"), os.path.join(d, "prosemirror"))
        if os.path.exists(os.path.join(REPO, "pyproject.toml")):
            shutil.copy(os.path.join(REPO, "pyproject.toml"), d)
        r = subprocess.run(["patch", "-p1", "-s", "-f", "-d", d, "-i", patch], capture_output=True, text=True)
        if r.returncode != 0:
            return patch, -1, "patch does not apply to the current tree (skipped)"
        env = dict(os.environ, PMVERIF_REPO=d, PMVERIF_NO_EVIDENCE="1", VERIF_TIER="quick")
        p = subprocess.run([os.path.join(VERIF, "check"), pid, "--tier", "quick", "--root", d], capture_output=True, text=True, env=env)
        rules = sorted({l.split()[1] for l in p.stdout.splitlines() if l.startswith("  FINDING")})
        return patch, p.returncode, ",".join(rules)
    finally:
        shutil.rmtree(d, ignore_errors=True)


def _relevant_files(pid: str) -> set[str]:
    """Files the property's anchors name plus the files of the functions its table entries sit in."""
    files: set[str] = set()
    try:
        for line in open(os.path.join(VERIF, "properties.jsonl"), encoding="utf-8"):
            pr = json.loads(line)
            if pr["id"] == pid:
                files |= set(pr.get("anchors", {}).get("files", []))
        from .props import TABLE

        for g in TABLE:
            if pid in g.props:
                files.add(g.fn.split("::")[0])
    except Exception:
        return set()
    return files


def expected() -> dict:
    path = os.path.join(VERIF, "selftest", "expect.json")
    return json.load(open(path)) if os.path.exists(path) else {}


def run_selftest(pid: str) -> dict:
    exp = expected()
    mutants = []
    sdir = os.path.join(VERIF, "seeded")
    for name in sorted(os.listdir(sdir)) if os.path.isdir(sdir) else []:
        meta_p = os.path.join(sdir, name, "meta.json")
        patch = os.path.join(sdir, name, "patch.diff")
        if not (os.path.exists(meta_p) and os.path.exists(patch)):
            continue
        want = exp.get("mutants", {}).get(name, {}).get(pid)
        if want:
            mutants.append((name, patch, want))
    twins = []
    tdir = os.path.join(VERIF, "selftest", "twins")
    rel = _relevant_files(pid)
    skipped_irrelevant = 0
    for name in sorted(os.listdir(tdir)) if os.path.isdir(tdir) else []:
        if name.endswith(".diff"):
            path = os.path.join(tdir, name)
            touched = {l[6:].strip() for l in open(path, encoding="utf-8") if l.startswith("+++ b/")}
            # a refactoring of a file no rule of this property reads cannot change its verdict;
            # `tools/alltwins.py` runs every twin against every property
            if rel and not (touched & rel):
                skipped_irrelevant += 1
                continue
            twins.append((name, path))
    out = {"twins_not_touching_relevant_files": skipped_irrelevant, "mutants_total": 0, "mutants_fired": 0, "mutants_skipped": 0, "twins_total": 0, "twins_silent": 0, "twins_skipped": 0, "failures": [], "details": []}
    with ThreadPoolExecutor(max_workers=min(16, (os.cpu_count() or 4))) as ex:
        mres = list(ex.map(lambda m: _run(m[1], pid), mutants))
        tres = list(ex.map(lambda t: _run(t[1], pid), twins))
    for (name, _p, want), (_pp, rc, rules) in zip(mutants, mres):
        if rc == -1:
            out["mutants_skipped"] += 1
            continue
        out["mutants_total"] += 1
        fired = rc == 1
        if want == "caught":
            if fired:
                out["mutants_fired"] += 1
            else:
                out["failures"].append(f"mutant {name}: expected a VIOLATION of {pid}, got exit {rc}")
        out["details"].append({"mutant": name, "expected": want, "exit": rc, "rules": rules})
    for (name, _p), (_pp, rc, rules) in zip(twins, tres):
        if rc == -1:
            out["twins_skipped"] += 1
            continue
        out["twins_total"] += 1
        if rc == 1:
            out["failures"].append(f"twin {name}: behaviour-preserving edit raised a VIOLATION of {pid} ({rules})")
        else:
            out["twins_silent"] += 1
        out["details"].append({"twin": name, "exit": rc, "rules": rules})
    return out
