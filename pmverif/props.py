"""Property -> rules table and the per-property runner."""

from __future__ import annotations

import os
from typing import Callable

from .core import Program, Report, finish
from .rules import rcustom, rf, rg, rk, rl, rn, rs, rsmall, rt, ru
from .rules.tables import TABLE as _HAND
from .rules.tables_auto import AUTO

TABLE = _HAND + AUTO

ASSUME = [
    "no reflection (setattr/__dict__/monkey-patching) on value types",
    "callers outside the package do not mutate lists/dicts after handing them to constructors",
    "a firing is a breach of a necessary structural condition of the property; silence is not a proof of the behavioural statement",
]

Rule = Callable[[Program, Report], None]

PROPS: dict[str, dict] = {}
NOT_APPLICABLE: dict[str, str] = {}


def prop(pid: str, explanation: str, rules: list[Rule], thorough: list[Rule] | None = None) -> None:
    rules = list(rules) + [lambda p, r, _pid=pid: rcustom.rule_rx_added_exit(p, r, _pid), lambda p, r, _pid=pid: rcustom.rule_rx_guard(p, r, _pid), lambda p, r, _pid=pid: rcustom.rule_rx_edit(p, r, _pid), lambda p, r, _pid=pid: rcustom.rule_rk_const(p, r, _pid), lambda p, r, _pid=pid: rcustom.rule_rd_default(p, r, _pid), lambda p, r, _pid=pid: rcustom.rule_rsw(p, r, _pid)]
    PROPS[pid] = {"explanation": "decides structural necessary conditions only: " + explanation + "; RX-add (no early exit added to an otherwise unchanged anchored function), RX-guard (the statements of an otherwise unchanged anchored function keep their control context), RX-edit (no single token of an otherwise unchanged anchored function changes what its expression denotes, no live statement deleted), RK-const (module constants keep their reviewed value), RD-default (defaulted parameters keep their default), RSW (no two operands of a reviewed call exchanged)", "rules": rules, "thorough": thorough or []}


def gates(pid: str) -> Rule:
    return lambda p, r: rg.run_gates(p, r, TABLE, pid)


FROM_TO_DOM = ("prosemirror/model/from_dom.py", "prosemirror/model/to_dom.py")

prop("C01", "RG gates on the step/replace mechanisms, RK-registry (all step types decodable)", [gates("C01"), rk.rule_rk_registry, rcustom.rule_rg3, rcustom.rule_rq])
prop("C05", "RK-json (writer/reader key agreement for 11 to_json/from_json pairs), RK-registry, RT2 (attribute presence by membership), RG gates on conditional JSON keys", [rk.rule_rk_json, rk.rule_rk_json_falsy, rk.rule_rk_registry, rt.rule_rt2, rf.rule_rf_json, rf.rule_rf_returns_fresh, gates("C05")])
prop("C06", "RK-kinds (expression kinds agree between parser, NFA compiler and type), RM (group membership on split lists), RG gates of schema build", [rk.rule_rk_kinds, rsmall.rule_rm, rcustom.rule_nfa_loops, rcustom.rule_rec_guard, gates("C06")])
prop("C08", "RS (flat record arrays ranges/mirror: writer arity, reader residues, selectors, accumulator), RI (guarded index not advanced before use), RL over map.py, RG gates of the mapping algebra", [
    rs.rule_rs_writers,
    rcustom.rule_rt3,
    lambda p, r: rs.rule_rs_readers(p, r, ("ranges", "mirror")),
    rs.rule_rs_selectors,
    rs.rule_rs_accumulator,
    rs.rule_ri,
    lambda p, r: rl.rule_rl(p, r, files=("prosemirror/transform/map.py",)),
    gates("C08"),
    lambda p, r: rn.rule_rsib(p, r, only=(), parts=("maptouch",)),
    rcustom.rule_copy_fresh,
])
prop("C09", "RU (UTF-16 positions never mixed with code-point counts in any function handling TextNode.text), RS on ResolvedPos.path, RL + ranking on find_index/resolve/node_at, RG gates (bounded child lookup)", [
    lambda p, r: ru.rule_ru(p, r, min_funcs=8),
    lambda p, r: rs.rule_rs_readers(p, r, ("path",)),
    rcustom.rule_rt3,
    rcustom.rule_rt4,
    lambda p, r: rl.rule_rl(p, r, files=("prosemirror/model/fragment.py", "prosemirror/model/resolvedpos.py", "prosemirror/model/node.py")),
    lambda p, r: rl.rule_rl_rank(p, r, [("prosemirror/model/fragment.py::Fragment.find_index", "counter"), ("prosemirror/model/resolvedpos.py::ResolvedPos.resolve", "descent"), ("prosemirror/model/node.py::Node.node_at", "descent")]),
    gates("C09"),
    lambda p, r: rn.rule_rsib(p, r, only=(), parts=("loop",)),
])
prop("C12", "RE (constant index into possibly-empty wrapping), RD (no discarded result of a pure call), RG gates of the structure helpers", [lambda p, r: rsmall.rule_re(p, r, files=("prosemirror/transform/structure.py", "prosemirror/model/content.py", "prosemirror/model/from_dom.py")), rsmall.rule_rd, gates("C12")])
prop("C14", "RT (lazy copies in Mark.add_to_set / NodeType.allowed_marks tested by identity), RM (mark group membership on split lists), RG gates of the mark-set algebra", [lambda p, r: rt.rule_rt(p, r), rsmall.rule_rm, gates("C14")], [rt.rule_rt_xref])
prop("C18", "RK-spec (spec keys read are declared keys), RG gates (isolating barriers in the ancestor walkers)", [rk.rule_rk_spec, gates("C18")])
prop("C19", "RL over from_dom/to_dom (no stuck loop path), RX (search sentinels), RA (escaping and str sinks), RT2, RG gates (mark activation), RK-tags (every exported element name has a parse rule), RX-conv (DOM attribute conversions guarded)", [
    lambda p, r: rl.rule_rl(p, r, files=FROM_TO_DOM, min_loops=10),
    lambda p, r: rsmall.rule_rx(p, r),
    rsmall.rule_ra,
    rsmall.rule_rw,
    rk.rule_rk_bundled,
    rk.rule_rk_tags,
    rk.rule_rx_conv,
    rt.rule_rt2,
    gates("C19"),
])
prop("C20", "RL (no stuck cycle path) + ranking variable on find_diff_start/find_diff_end, RU on the text comparisons, RG gates", [
    lambda p, r: rl.rule_rl(p, r, files=("prosemirror/model/diff.py",)),
    lambda p, r: rl.rule_rl_rank(p, r, [("prosemirror/model/diff.py::find_diff_start", "counter"), ("prosemirror/model/diff.py::find_diff_end", "counter")]),
    lambda p, r: ru.rule_ru(p, r, files=("prosemirror/model/diff.py",)),
    lambda p, r: rsmall.rule_rz(p, r),
    rcustom.rule_rt4,
    gates("C20"),
], [lambda p, r: rl.rule_rl(p, r)])

prop("C02", "RG gates of the replace algorithm (validation through close(), open-depth guards, text merging, range cutting), RU on the text cuts, RT3 (0 is a position)", [gates("C02"), rcustom.rule_rt3, lambda p, r: ru.rule_ru(p, r, files=("prosemirror/model/fragment.py", "prosemirror/model/node.py"))])
prop("C03", "RN (get_map of both replace steps is the documented function of the fields apply uses; size-preserving steps report the empty map), RS-accumulator on StepMap.for_each, RP-add_step (the mapping receives the map of the step just recorded), RG forms of the node-level steps, RT3 (0 is a position in the slices the steps cut)", [rcustom.rule_rt3, rn.rule_rn_formulas, rs.rule_rs_accumulator, rcustom.rule_rp_add_step, gates("C03"), lambda p, r: rn.rule_rsib(p, r, only=(), parts=("trio",))])
prop("C04", "RG gates of history bookkeeping and of the inverse constructions; RT3 (0 is a position: the inverse of an insertion at the document start is built from `doc.slice(0, 0)`); RU on the text cuts of Fragment.cut / Node.slice, from which every inverse slice is taken", [gates("C04"), rn.rule_rn_formulas, rcustom.rule_rp_add_step, rf.rule_rf_accumulators, rcustom.rule_rt3, lambda p, r: rn.rule_rsib(p, r, only=("MarkStep",)), lambda p, r: ru.rule_ru(p, r, files=("prosemirror/model/fragment.py", "prosemirror/model/node.py"))])
prop("C07", "RG gates: each validity predicate contains the conjuncts of the definition of validity", [gates("C07"), rcustom.rule_rc_dep, rsmall.rule_rm])
prop("C10", "RF (no in-place write reaches a shared value): RF-mut (every in-place mutation has a fresh receiver or a declared non-value owner), RF-attr (value-type fields assigned only in __init__), RF-acc (accumulators append-only, single writer), RF-json, RD, RG gates on identity shortcuts", [rf.rule_rf_mutations, rf.rule_rf_owner_init, rf.rule_rf_attr_stores, rf.rule_rf_accumulators, rf.rule_rf_json, rsmall.rule_rd, rcustom.rule_copy_fresh, rf.rule_rf_returns_fresh, gates("C10")])
prop("C11", "RP-fitter (placed / frontier-match pairing, frontier pushes), RG gates of the fitter (mark filter on placement, isolating barrier), RT on NodeType.allowed_marks", [rcustom.rule_rp_fitter, lambda p, r: rsmall.rule_re(p, r, files=("prosemirror/transform/replace.py", "prosemirror/transform/transform.py"), min_reads=0), gates("C11"), lambda p, r: rt.rule_rt(p, r, only={"prosemirror/model/schema.py::NodeType.allowed_marks"})])
prop("C13", "RG gates of the mark planners (coalescing conditions, permission), RT on Mark.add_to_set, RU on clear_incompatible", [gates("C13"), lambda p, r: rt.rule_rt(p, r, only={"prosemirror/model/mark.py::Mark.add_to_set"}), lambda p, r: ru.rule_ru(p, r, files=("prosemirror/transform/transform.py",))])
prop("C15", "RG gates of the fill and wrapper searches (generatable guard, seen-set discipline, BFS order)", [gates("C15")])
prop("C16", "RG gates: merge guards of ReplaceStep / AddMarkStep / RemoveMarkStep", [gates("C16"), rcustom.rule_merge_slices, lambda p, r: rn.rule_rsib(p, r, only=(".merge",))])
prop("C17", "RG gates: keep/drop conditions of every Step.map", [gates("C17"), rcustom.rule_rt4, rn.rule_rn_assoc, lambda p, r: rn.rule_rsib(p, r, only=(".map",))])


_PROG: Program | None = None


def run(pid: str, tier: str, t0: float) -> int:
    global _PROG
    spec = PROPS[pid]
    if _PROG is None:
        _PROG = Program()
    prog = _PROG
    report = Report(pid)
    from .core import AnalysisError

    todo = list(spec["rules"]) + (list(spec["thorough"]) if tier == "thorough" else [])
    for rule in todo:
        try:
            rule(prog, report)
        except AnalysisError as e:  # one rule's anchor trouble must not hide another rule's finding
            report.errors.append(str(e))
    extra = None
    if tier == "thorough" and not report.findings and not os.environ.get("PMVERIF_NO_EVIDENCE"):
        from .selftest import run_selftest

        st = run_selftest(pid)
        extra = {"selftest": {k: v for k, v in st.items() if k != "details"}, "selftest_details": st["details"]}
        report.count("selftest mutants fired", st["mutants_fired"])
        report.count("selftest mutants total", st["mutants_total"])
        report.count("selftest twins silent", st["twins_silent"])
        report.count("selftest twins total", st["twins_total"])
        for f in st["failures"]:
            report.errors.append("self-test: " + f)
    return finish(report, prog, tier, t0, spec["explanation"], ASSUME, extra)
