"""Property -> rules table and the per-property runner."""

from __future__ import annotations

import time
from typing import Callable

from .core import Program, Report, finish
from .rules import rg, rl, rs, rt
from .rules.tables import TABLE

ASSUME = [
    "no reflection (setattr/__dict__/monkey-patching) on value types",
    "callers outside the package do not mutate lists/dicts after handing them to constructors",
    "a firing is a breach of a necessary structural condition of the property; silence is not a proof of the behavioural statement",
]

Rule = Callable[[Program, Report], None]

PROPS: dict[str, dict] = {}


def prop(pid: str, explanation: str, rules: list[Rule], thorough: list[Rule] | None = None) -> None:
    PROPS[pid] = {"explanation": explanation, "rules": rules, "thorough": thorough or []}


prop(
    "C14",
    "decides structural necessary conditions only: RT (lazy copies in Mark.add_to_set / NodeType.allowed_marks are tested by identity, never by truthiness)",
    [lambda p, r: rt.rule_rt(p, r)],
    [rt.rule_rt_xref],
)

prop(
    "C20",
    "decides structural necessary conditions only: RL (no stuck cycle path) + ranking variable on find_diff_start/find_diff_end",
    [
        lambda p, r: rl.rule_rl(p, r, files=("prosemirror/model/diff.py",)),
        lambda p, r: rl.rule_rl_rank(p, r, [("prosemirror/model/diff.py::find_diff_start", "counter"), ("prosemirror/model/diff.py::find_diff_end", "counter")]),
    ],
    [lambda p, r: rl.rule_rl(p, r)],
)

prop(
    "C08",
    "decides structural necessary conditions only: RS (flat record arrays ranges/mirror: writer arity, reader residues, selectors, accumulator), RI (guarded index not advanced before use), RL over map.py",
    [
        lambda p, r: rs.rule_rs_writers(p, r),
        lambda p, r: rs.rule_rs_readers(p, r, ("ranges", "mirror")),
        rs.rule_rs_selectors,
        rs.rule_rs_accumulator,
        rs.rule_ri,
        lambda p, r: rl.rule_rl(p, r, files=("prosemirror/transform/map.py",)),
        lambda p, r: rg.run_gates(p, r, TABLE, "C08"),
    ],
)


def run(pid: str, tier: str, t0: float) -> int:
    spec = PROPS[pid]
    prog = Program()
    report = Report(pid)
    for rule in spec["rules"]:
        rule(prog, report)
    if tier == "thorough":
        for rule in spec["thorough"]:
            rule(prog, report)
    return finish(report, prog, tier, t0, spec["explanation"], ASSUME)
