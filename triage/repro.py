"""Triage reproducers for the defects D1..D26 of DESIGN.md section 5.

NOT part of any registered check (the checks are static and never import
prosemirror).  Each function runs the failing input against the real code and
returns (ok, detail); `ok` is True when the behaviour matches the property.

usage: PYTHONPATH=<repo> /venv/bin/python repro.py [D1 D2 ...]
"""

import signal
import sys
import traceback
from typing import Any

from prosemirror.model import Fragment, Node, Schema, Slice
from prosemirror.model.from_dom import from_html
from prosemirror.model.to_dom import DOMSerializer
from prosemirror.schema.basic import schema as basic
from prosemirror.test_builder import out, test_schema
from prosemirror.transform import (
    AttrStep,
    Mapping,
    ReplaceAroundStep,
    StepMap,
    Transform,
    drop_point,
    join_point,
)
from prosemirror.transform.doc_attr_step import DocAttrStep

doc, p, em, bq, ul, ol, li, pre, h1 = (
    out[k] for k in ("doc", "p", "em", "blockquote", "ul", "ol", "li", "pre", "h1")
)


def mark_schema() -> Schema[Any, Any]:
    return Schema({
        "nodes": {
            "doc": {"content": "block+"},
            "paragraph": {"content": "text*", "group": "block"},
            "plain": {"content": "text*", "group": "block", "marks": ""},
            "onlyc": {"content": "text*", "group": "block", "marks": "c"},
            "text": {"group": "inline"},
        },
        "marks": {"a": {}, "b": {}, "c": {"excludes": "a"}},
    })


def D1():
    s = mark_schema()
    a, b, c = (s.mark(n) for n in "abc")
    res = c.add_to_set([a, b])
    return [m.type.name for m in res] == ["b", "c"], [m.type.name for m in res]


def D2():
    s = mark_schema()
    a, b, c = (s.mark(n) for n in "abc")
    r1 = s.nodes["plain"].allowed_marks([a, b])
    r2 = s.nodes["onlyc"].allowed_marks([a, c])
    names = [[m.type.name for m in r] for r in (r1, r2)]
    return names == [[], ["c"]], names


def D3():
    m = StepMap([2, 2, 0])
    res = m.map_result(3, 1)
    assert res.recover is not None
    t = m.touches(3, res.recover)
    try:
        e = StepMap([]).touches(0, 0)
    except IndexError as ex:
        return False, f"empty map: {ex!r}"
    return t is True and e is False, (t, e)


def D4():
    got = []
    StepMap([2, 0, 3, 10, 2, 0]).for_each(lambda a, b, c, d: got.append((a, b, c, d)))
    return got == [(2, 2, 2, 5), (10, 12, 13, 13)], got


def D5():
    a = Mapping([StepMap([0, 0, 1])])
    b = Mapping([StepMap([1, 0, 2]), StepMap([5, 1, 0])])
    try:
        a.append_mapping(b)
    except IndexError as ex:
        return False, repr(ex)
    return [str(m) for m in a.maps] == ["[0, 0, 1]", "[1, 0, 2]", "[5, 1, 0]"], [
        str(m) for m in a.maps
    ]


def D6():
    d = doc(p("foo", em("bar")))
    marks = [m.type.name for m in d.resolve(1).marks()]
    mc = d.maybe_child(-1)
    jp = join_point(doc(bq(p("a")), bq(p("b"))), 1, -1)
    return marks == [] and mc is None and jp is None, (marks, mc, jp)


def D7():
    d = doc(p("a\U0001F600b"))
    t = d.text_between(4, 5)
    t2 = d.text_between(1, 4)
    return (t, t2) == ("b", "a\U0001F600"), (t, t2)


def D8():
    d = doc(pre("\U0001F600\nx"))
    tr = Transform(d)
    try:
        tr.set_block_type(1, 1, test_schema.nodes["paragraph"], None)
    except Exception as ex:  # noqa: BLE001
        return False, repr(ex)
    return tr.doc.eq(doc(p("\U0001F600 x"))), str(tr.doc)


class _Timeout(Exception):
    pass


def _alarm(_s, _f):
    raise _Timeout


def with_timeout(f, secs=3):
    signal.signal(signal.SIGALRM, _alarm)
    signal.alarm(secs)
    try:
        return f()
    finally:
        signal.alarm(0)


def D9():
    d = doc(p("a"), p("b"))
    tr = Transform(d).insert(5, test_schema.text("c"))
    try:
        r = with_timeout(lambda: d.content.find_diff_start(tr.doc.content))
    except _Timeout:
        return False, "find_diff_start did not terminate"
    return r == 5, r


def D10():
    a = doc(p("a\U0001F600x"))
    b = doc(p("a\U0001F600y"))
    s = a.content.find_diff_start(b.content)
    try:
        e = doc(p("a\U0001F600")).content.find_diff_end(doc(p("b\U0001F600")).content)
    except IndexError as ex:
        return False, f"find_diff_end: {ex!r}"
    return s == 4 and e == {"a": 2, "b": 2}, (s, e)


def _ctx_schema(ctx: str) -> Schema[Any, Any]:
    nodes = dict(basic.spec["nodes"])
    nodes["paragraph"] = {
        **nodes["paragraph"],
        "parseDOM": [{"tag": "p"}, {"tag": "span", "context": ctx}],
    }
    return Schema({"nodes": nodes, "marks": basic.spec["marks"]})


def D11():
    res = []
    for ctx in ("blockquote/", "blockquote"):
        s = _ctx_schema(ctx)
        try:
            r = with_timeout(
                lambda s=s: from_html(s, "<blockquote><span>x</span></blockquote>")
            )
            res.append("ok")
        except _Timeout:
            res.append("hang")
        except Exception as ex:  # noqa: BLE001
            res.append(repr(ex))
    return res == ["ok", "ok"], res


def D12():
    try:
        r = from_html(test_schema, "<ul></ul><p>x</p>")
    except BaseException as ex:  # noqa: BLE001
        return False, repr(ex)
    return True, r


def D13():
    d = doc(ol({"order": 3}, li(p("a"))))
    try:
        s = str(DOMSerializer.from_schema(test_schema).serialize_fragment(d.content))
    except Exception as ex:  # noqa: BLE001
        return False, repr(ex)
    return 'start="3"' in s, s


def D14():
    nodes = dict(test_schema.spec["nodes"])
    nodes["blockquote"] = {**nodes["blockquote"], "content": "paragraph+"}
    s = Schema({"nodes": nodes, "marks": test_schema.spec["marks"]})
    d = s.node("doc", None, [s.node("blockquote", None, [s.node("paragraph")])])
    sl = Slice(Fragment.from_([s.node("paragraph"), s.node("heading")]), 0, 0)
    try:
        r = [drop_point(d, i, sl) for i in range(d.content.size + 1)]
    except IndexError as ex:
        return False, repr(ex)
    return True, r


def D15():
    d = doc(ol(li(p("one"), ul(li(p("x")))), li(p("two"))), p("after"))
    bad = []
    n = 0
    for f in range(d.content.size + 1):
        for t in range(f, d.content.size + 1):
            n += 1
            try:
                tr = Transform(d).delete(f, t)
                tr.doc.check()
            except Exception as ex:  # noqa: BLE001
                bad.append((f, t, type(ex).__name__))
    return not bad, (len(bad), n, bad[:3])


def D16():
    v = {"k": [1]}
    st = AttrStep(1, "x", v)
    j = st.to_json()
    st2 = DocAttrStep("x", v)
    j2 = st2.to_json()
    return j["value"] is not v and j2["value"] is not v, "aliased"


def D21():
    s = Schema({
        "nodes": {
            "doc": {"content": "table"},
            "table": {"content": "cell+"},
            "cell": {"content": "wrapper+", "isolating": True},
            "wrapper": {"content": "paragraph+"},
            "paragraph": {"content": "text*"},
            "text": {},
        },
    })
    n = s.node
    d = n("doc", None, [n("table", None, [
        n("cell", None, [n("wrapper", None, [n("paragraph", None, [s.text("ab")])])]),
        n("cell", None, [n("wrapper", None, [n("paragraph", None, [s.text("cd")])])]),
    ])])
    tr = Transform(d).delete_range(4, 8)
    return tr.doc.child(0).child_count == 2, str(tr.doc)


def D22():
    d = doc(p("a"))
    st = ReplaceAroundStep(0, 3, 0, 3, Slice(Fragment.from_(h1()), 0, 0), 1, True)
    r = st.apply(d)
    if r.failed:
        return True, r.failed
    try:
        r.doc.check()
    except ValueError as ex:
        return False, f"{r.doc} : {ex}"
    return True, str(r.doc)


def D24():
    res = []
    for h in ("<p><a>x</a></p>", "<p><img></p>"):
        try:
            from_html(test_schema, h)
            res.append("ok")
        except ValueError as ex:
            res.append(repr(ex))
    return res == ["ok", "ok"], res


def D26():
    j = from_html(test_schema, "<pre><em>x</em></pre>")
    d = Node.from_json(test_schema, j)
    try:
        d.check()
    except ValueError as ex:
        return False, f"{d}: {ex}"
    return True, str(d)


def D27():
    nodes = dict(test_schema.spec["nodes"])
    nodes.update({
        "table": {"content": "row+", "group": "block", "isolating": True},
        "row": {"content": "cell+"},
        "cell": {"content": "block+", "isolating": True},
    })
    s = Schema({"nodes": nodes, "marks": test_schema.spec["marks"]})
    n, t = s.node, s.text
    para = lambda *c: n("paragraph", None, list(c))  # noqa: E731
    d = n("doc", None, [para(t("a")), n("table", None, [n("row", None, [n("cell", None, [para(t("c1"))]), n("cell", None, [para(t("c2"))])])]), para(t("z"))])
    sl = d.slice(7, 11)  # from inside the first cell to after it: <cell(paragraph("c1"))>(2,0)
    try:
        tr = with_timeout(lambda: Transform(d).replace(0, 0, sl))
    except _Timeout:
        return False, f"Transform.replace(0, 0, {sl}) does not terminate"
    tr.doc.check()
    return True, str(tr.doc)


def _accepts(expr: str, seq: list[str]) -> bool:
    s = Schema({"nodes": {"doc": {"content": expr}, "a": {}, "b": {}, "c": {}, "text": {}}})
    m = s.nodes["doc"].content_match
    for t in seq:
        m = m.match_type(s.nodes[t])
        if m is None:
            return False
    return m.valid_end


def D28():
    r = [_accepts("a | b{0,}", ["b", "a"]), _accepts("(a | b{0,}) c", ["b", "a", "c"]), _accepts("a | b{0,}", ["b", "b"]), _accepts("a{1,} b", ["a", "a", "b"])]
    return r == [False, False, True, True], r


def D29():
    res = []
    for e in ("a{0,1}*", "a{0,1}+", "(a b | c{0,1})+", "a{0,1}{1,}"):
        try:
            ok = _accepts(e, ["a", "a"]) if e != "(a b | c{0,1})+" else _accepts(e, ["a", "b", "c"])
            res.append(ok)
        except RecursionError:
            res.append("RecursionError")
    return res == [True, True, True, True], res


def D30():
    d = doc(p(em("a"), " ", out["strong"]("b")))
    html = str(DOMSerializer.from_schema(test_schema).serialize_fragment(d.content))
    back = Node.from_json(test_schema, from_html(test_schema, html))
    return back.eq(d), f"{html} -> {back}"


ALL = {k: v for k, v in list(globals().items()) if k[0] == "D" and k[1:].isdigit()}

if __name__ == "__main__":
    names = sys.argv[1:] or sorted(ALL, key=lambda s: int(s[1:]))
    bad = 0
    for n in names:
        try:
            ok, detail = ALL[n]()
        except Exception:  # noqa: BLE001
            ok, detail = False, "EXC " + traceback.format_exc(limit=3).replace("\n", " | ")
        print(f"{n}: {'ok ' if ok else 'BAD'} {detail}"[:300])
        bad += not ok
    sys.exit(1 if bad else 0)
